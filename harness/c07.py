"""C07 - documented shorthand forms mean exactly their documented expansions.

Pairs (short form, long form) are derived from generated explicit calls by the rewriting the
documentation describes; both are executed on identical data on the numpy backends and must give
the same values and shapes or the same class of error."""
import json
import warnings

import numpy as np

from . import common, gencalls, implrun
from .c08 import clone, eq, unmarked_dim
from .gencalls import Ax, Cat, Fl, leaves, p_dim, p_dims, shape_of

BACKENDS = ["numpy", "numpy.numpylike"]


def groups(dims):
    """top-level tokens with adjacent fully-bracketed dims merged into one bracket group; returns list of (text, is_bracket_group)"""
    out = []
    i = 0
    while i < len(dims):
        d = dims[i]
        ls = d.leaves()
        if ls and all(l.marked for l in ls):
            j = i
            grp = []
            while j < len(dims) and dims[j].leaves() and all(l.marked for l in dims[j].leaves()):
                grp.append(p_dim(dims[j], True))
                j += 1
            out.append(("[" + " ".join(grp) + "]", True))
            i = j
        else:
            out.append((p_dim(d), False))
            i += 1
    return out


def text(dims):
    return " ".join(t for t, _ in groups(dims))


def pair_implicit_output(c, rng):
    """omitted output = the per-operation default"""
    ins = ", ".join(text(t) for t in c.ins)
    if c.family == "reduce":
        out = " ".join(t for t, br in groups(c.ins[0]) if not br)
        # inner brackets inside flattened axes are not handled by this simple printer
        if any(isinstance(d, Fl) and any(l.marked for l in d.leaves()) and not all(l.marked for l in d.leaves()) for d in c.ins[0]):
            return None
        return ("implicit_output", ins, {}, ins + " -> " + out, {})
    if c.family == "preserve" or (c.family == "id" and len(c.ins) == 1 and not any(isinstance(d, Cat) for d in c.ins[0])):
        return ("implicit_output", ins, {}, ins + " -> " + text(c.ins[0]), {})
    if c.family == "elementwise":
        names = [{l.name for l in leaves(t) if not (l.number and l.size == 1)} for t in c.ins]   # the rule ignores literal 1s only
        parents = [i for i, n in enumerate(names) if all(m <= n for j, m in enumerate(names) if j != i)]
        if len(c.ins) == 1 or len(parents) == 1:
            k = 0 if len(c.ins) == 1 else parents[0]
            return ("implicit_output", ins, {}, ins + " -> " + text(c.ins[k]), {})
    if c.family == "update_at" and getattr(c, "out_perm", None) is None:
        return ("implicit_output", ins, {}, ins + " -> " + text(c.ins[0]), {})
    return None


def pair_implicit_output_number(c, rng):
    """element-wise call without '->' whose would-be output differs from the other inputs by an axis written as a number:
    'b n 3, b n' = 'b n c, b n -> b n c' with c=3 (a number is an axis with a name of its own)"""
    if c.family != "elementwise" or len(c.ins) < 2:
        return None
    names = [{l.name for l in leaves(t) if not (l.number and l.size == 1)} for t in c.ins]
    parents = [i for i, n in enumerate(names) if all(m <= n for j, m in enumerate(names) if j != i)]
    if len(parents) != 1:
        return None
    k = parents[0]
    cnt = {}
    for l in leaves(c.ins[k]):
        cnt[l.name] = cnt.get(l.name, 0) + 1
    own = [l.name for l in leaves(c.ins[k]) if not l.number and l.size > 1 and cnt[l.name] == 1
           and all(l.name not in names[j] for j in range(len(c.ins)) if j != k)]
    if not own:
        return None
    nm = rng.choice(own)
    d = clone(c)
    for l in leaves(d.ins[k]):
        if l.name == nm:
            l.number = True
    long_ = ", ".join(text(t) for t in c.ins) + " -> " + text(c.ins[k])
    short = ", ".join(text(t) for t in d.ins)
    return ("implicit_output_number", short, {"__drop__": [nm]}, long_, {})


def pair_automark(c, rng):
    """un-bracketed reduction / dot = brackets around the axes missing from the output"""
    if c.family not in ("reduce", "dot"):
        return None
    for t in c.ins:
        names = [l.name for l in leaves(t)]
        if len(names) != len(set(names)):
            return None
        if any(l.number and l.marked for l in leaves(t)):
            return None
    outnames = {l.name for l in leaves(c.outs[0])}
    for t in c.ins:
        for l in leaves(t):
            if l.marked != (l.name not in outnames):
                return None
    d = clone(c)
    for t in d.ins:
        for l in leaves(t):
            l.marked = False
    long_ = ", ".join(text(t) for t in c.ins) + " -> " + text(c.outs[0])
    short = ", ".join(text(t) for t in d.ins) + " -> " + text(d.outs[0])
    return ("automark", short, {}, long_, {})


def pair_number(c, rng):
    """a number = a fresh axis of that length"""
    cnt = {}
    for t in c.ins + c.outs:
        for l in leaves(t):
            if not l.number:
                cnt[l.name] = cnt.get(l.name, 0) + 1
    once = [n for n, k in cnt.items() if k == 1]
    if not once:
        return None
    nm = rng.choice(once)
    d = clone(c)
    size = None
    for t in d.ins + d.outs:
        for l in leaves(t):
            if l.name == nm:
                l.number = True
                size = l.size
    long_ = ", ".join(text(t) for t in c.ins) + " -> " + ", ".join(text(t) for t in c.outs)
    short = ", ".join(text(t) for t in d.ins) + " -> " + ", ".join(text(t) for t in d.outs)
    return ("number", short, {}, long_, {nm: size})


def number_nondividing_items(rng, n):
    """a number inside a parenthesised axis, on a tensor whose dimension is NOT a multiple of what the group needs: the short form
    must fail exactly like the long form (a named axis of that length)"""
    import copy
    items = []
    tries = 0
    while len(items) < n and tries < n * 60:
        tries += 1
        c = gencalls.gen_call(rng)
        p = pair_number(c, rng)
        if p is None:
            continue
        _, short, skw, long_, lkw = p
        nm = next(iter(lkw))
        # the tensor dimension that holds the numbered axis inside a flattened group
        where = [(ti, di) for ti, t in enumerate(c.ins) for di, d in enumerate(t)
                 if isinstance(d, gencalls.Fl) and any(l.name == nm for l in d.leaves()) and len(d.leaves()) >= 2 and lkw[nm] >= 2]
        if not where:
            continue
        ti, di = rng.choice(where)
        a = np.asarray(c.arrays[ti])
        if a.ndim <= di or np.asarray(c.arrays[ti]).shape != gencalls.shape_of(c.ins[ti]):
            continue
        sh = list(a.shape)
        sh[di] += 1                                   # no longer a multiple (the group's other axes have size >= 1, the number >= 2)
        c2 = copy.copy(c)
        c2.arrays = [np.zeros(sh, dtype=a.dtype) if k == ti else x for k, x in enumerate(c.arrays)]
        items.append((c2, "number_in_group_nondividing", short, skw, long_, lkw))
    return items


def repeated_group_number_items(rng, n):
    """a parenthesised group that contains a number and is written identically in several places (what common-subexpression
    elimination looks for): the number stays a fresh axis of that length - on tensors that fit and on tensors that do not"""
    items = []
    while len(items) < n:
        K, m, cc = rng.choice([2, 3, 4]), rng.choice([1, 2, 3]), rng.choice([2, 3])
        first = K * m + (1 if rng.random() < 0.5 else 0)            # half of the tensors do not fit
        nm = rng.sample(["a", "b", "c", "d"], 2)
        B_, C_ = nm
        which = rng.choice(["id", "add", "sum", "nested"])
        # every written number is an axis of its own: the long form names them n, m, k
        if which == "id":
            op, short, long_, arrays = "id", f"({B_} {K}) {C_} -> {C_} ({B_} {K})", f"({B_} n) {C_} -> {C_} ({B_} m)", [gencalls.int_data(rng, (first, cc))]
        elif which == "add":
            op, short, long_ = "add", f"({B_} {K}) {C_}, ({B_} {K}) -> {C_} ({B_} {K})", f"({B_} n) {C_}, ({B_} m) -> {C_} ({B_} k)"
            arrays = [gencalls.int_data(rng, (first, cc)), gencalls.int_data(rng, (first,))]
        elif which == "sum":
            op, short, long_, arrays = "sum", f"({B_} {K}) [{C_}] -> ({B_} {K})", f"({B_} n) [{C_}] -> ({B_} m)", [gencalls.int_data(rng, (first, cc))]
        else:
            op, short, long_ = "id", f"{C_} ({B_} {K}) -> ({C_} ({B_} {K}))", f"{C_} ({B_} n) -> ({C_} ({B_} m))"
            arrays = [gencalls.int_data(rng, (cc, first))]
        fam = "elementwise" if op == "add" else ("reduce" if op == "sum" else "id")
        c = gencalls.Call(fam, op, [], [], arrays, desc=short)
        items.append((c, "number_in_repeated_group", short, {}, long_, {k: K for k in ("n", "m", "k") if f" {k})" in long_}))
    return items


def pair_ellipsis(c, rng, anonymous):
    """an ellipsis = its written-out repetition; anonymous '...' = one shared named ellipsis"""
    if c.family not in ("elementwise", "reduce", "id", "preserve"):
        return None
    tens = c.ins + c.outs
    if any(isinstance(d, Cat) for t in tens for d in t):
        return None
    # a run of plain un-bracketed top-level axes that occurs identically in every tensor containing any of them
    first = next((t for t in tens if t), None)
    if first is None:
        return None
    for start in range(len(first)):
        for ln in (3, 2, 1):
            run = first[start:start + ln]
            if len(run) < ln or not all(isinstance(d, Ax) and not d.marked and not d.number for d in run):
                continue
            names = [d.name for d in run]
            ok = True
            spans = []
            for t in tens:
                tn = [d.name if isinstance(d, Ax) else None for d in t]
                allnames = [l.name for l in leaves(t)]
                if any(n in allnames for n in names):
                    pos = [i for i in range(len(t)) if tn[i:i + ln] == names]
                    if len(pos) != 1 or sum(allnames.count(n) for n in names) != ln:
                        ok = False
                        break
                    spans.append((t, pos[0]))
            if not ok or not spans or not any(any(tt is ti for ti in c.ins) for tt, _ in spans):
                continue       # the run must occur in an input: an ellipsis in the output alone has no determined expansion
            ell = "..." if anonymous else "zz..."
            def render(t):
                toks = [tok for tok, _ in groups(t)]
                # groups() may merge brackets; recompute simply per dim
                toks = [p_dim(d) for d in t]
                for (tt, p) in spans:
                    if tt is t:
                        toks[p:p + ln] = [ell]
                return " ".join(toks)
            long_ = ", ".join(" ".join(p_dim(d) for d in t) for t in c.ins) + " -> " + ", ".join(" ".join(p_dim(d) for d in t) for t in c.outs)
            short = ", ".join(render(t) for t in c.ins) + " -> " + ", ".join(render(t) for t in c.outs)
            kw = {}
            # sizes given for the replaced axes would name axes that no longer exist: pass them per repetition
            return ("anonymous_ellipsis" if anonymous else "named_ellipsis", short, {"__drop__": names}, long_, kw)
    return None


def pair_keepdims(c, rng):
    """keepdims=True = every bracket group becomes a unit axis: explicit output with "()" in its place; for a bracket around a
    single axis this is the documented spelling "([b])" """
    if c.family != "reduce":
        return None
    if any(isinstance(d, Fl) and any(l.marked for l in d.leaves()) for d in c.ins[0]):
        return None
    gs = groups(c.ins[0])
    short = " ".join(t for t, _ in gs)
    single = all((not br) or (" " not in t and "(" not in t) for t, br in gs)
    if single and rng.random() < 0.5:
        long_ = " ".join(("(" + t + ")") if br else t for t, br in gs)
    else:
        long_ = short + " -> " + " ".join("()" if br else t for t, br in gs)
    return ("keepdims", short, {"keepdims": True}, long_, {})


def pair_adjacent_brackets(c, rng):
    if not any(l.marked for t in c.ins + c.outs for l in leaves(t)):
        return None
    merged = ", ".join(text(t) for t in c.ins) + " -> " + ", ".join(text(t) for t in c.outs)
    split = ", ".join(" ".join(p_dim(d) for d in t) for t in c.ins) + " -> " + ", ".join(" ".join(p_dim(d) for d in t) for t in c.outs)
    if merged == split:
        return None
    return ("adjacent_brackets", split, {}, merged, {})


def pair_adjacent_brackets_implicit(c, rng):
    """adjacent brackets = one bracket, also when the output is left to the per-operation default (argmax / argmin)"""
    if c.family != "argfind":
        return None
    t = c.ins[0]
    merged = text(t)
    split = " ".join(p_dim(d) for d in t)
    if merged == split or merged.count("[") != 1:
        return None
    return ("adjacent_brackets_implicit", split, {}, merged, {})


def pair_spaces(c, rng):
    from .c12 import redundant_space_variant
    long_ = c.desc
    short = redundant_space_variant(long_, rng)
    if short == long_:
        return None
    return ("spaces", short, {}, long_, {})


def pair_rearrange(c, rng):
    if c.family != "id":
        return None
    return ("rearrange", c.desc, {"__fn__": "rearrange"}, c.desc, {})


def pair_unit_coordinate(c, rng):
    """a length-1 coordinate bracket in get_at = no bracket"""
    if c.family != "get_at":
        return None
    for k, t in enumerate(c.ins[1:], start=1):
        for i, d in enumerate(t):
            if isinstance(d, Ax) and d.marked and d.size == 1:
                d2 = clone(c)
                d2.ins[k] = d2.ins[k][:i] + d2.ins[k][i + 1:]
                d2.arrays[k] = np.reshape(d2.arrays[k], shape_of(d2.ins[k]))
                long_ = ", ".join(" ".join(p_dim(x) for x in t) for t in c.ins) + " -> " + " ".join(p_dim(x) for x in c.outs[0])
                short = ", ".join(" ".join(p_dim(x) for x in t) for t in d2.ins) + " -> " + " ".join(p_dim(x) for x in d2.outs[0])
                return ("unit_coordinate", short, {"__arrays__": d2.arrays}, long_, {})
    return None


PAIRS = [pair_implicit_output, pair_implicit_output_number, pair_automark, pair_number, lambda c, r: pair_ellipsis(c, r, True), lambda c, r: pair_ellipsis(c, r, False),
         pair_keepdims, pair_adjacent_brackets, pair_adjacent_brackets_implicit, pair_spaces, pair_rearrange, pair_unit_coordinate]


def call(fn, desc, arrays, kw, backend):
    import einx
    f = getattr(einx, fn)
    try:
        with warnings.catch_warnings():
            warnings.simplefilter("ignore")
            try:
                r = common.with_alarm(30, f, desc, *[np.array(a) for a in arrays], backend=backend, **kw)
            except common.Timeout:
                # a machine under heavy load (page faults count as CPU time of the process): once more with a generous limit - a
                # call that really does not end runs into it again
                r = common.with_alarm(240, f, desc, *[np.array(a) for a in arrays], backend=backend, **kw)
        return ("ok", [np.asarray(x) for x in (r if isinstance(r, tuple) else (r,))])
    except BaseException as e:  # noqa: BLE001
        return ("exc", common.classify_exc(e), common.exc_site(e), str(e)[:200])


def graph_text(fn, desc, arrays, kw, backend):
    import einx
    try:
        with warnings.catch_warnings():
            warnings.simplefilter("ignore")
            return str(common.with_alarm(30, getattr(einx, fn), desc, *[np.array(a) for a in arrays], backend=backend, graph=True, **kw))
    except BaseException as e:  # noqa: BLE001
        return "raises " + common.classify_exc(e)


def _work(item):
    c, kind, sdesc, skw, ldesc, lkw = item
    out = []
    base = dict(c.size_kwargs())
    base.update(c.extra_kwargs)
    for b in BACKENDS:
        skw2 = dict(base)
        fn_s = c.op
        arrays_s = c.arrays
        for k, v in skw.items():
            if k == "__drop__":
                for n in v:
                    skw2.pop(n, None)
            elif k == "__fn__":
                fn_s = v
            elif k == "__arrays__":
                arrays_s = v
            else:
                skw2[k] = v
        lkw2 = dict(base)
        lkw2.update(lkw)
        rs = call(fn_s, sdesc, arrays_s, skw2, b)
        rl = call(c.op, ldesc, c.arrays, lkw2, b)
        same = (rs[0] == rl[0]) and ((rs[0] == "ok" and eq(rs[1], rl[1])) or (rs[0] == "exc" and rs[1] == rl[1]))
        if same and kind == "rearrange":
            # einx.rearrange = einx.id in every respect: the code it returns for a given backend, and what an unknown backend name does
            same = graph_text(fn_s, sdesc, arrays_s, skw2, b) == graph_text(c.op, ldesc, c.arrays, lkw2, b)
            if same:
                ru, iu = call(fn_s, sdesc, arrays_s, skw2, "no_such_backend"), call(c.op, ldesc, c.arrays, lkw2, "no_such_backend")
                same = (ru[0], ru[1] if ru[0] == "exc" else None) == (iu[0], iu[1] if iu[0] == "exc" else None)
        if not same:
            out.append(({"kind": "shorthand_differs", "shorthand": kind, "family": c.family, "backend": b,
                         "short": rs[0] if rs[0] == "ok" else rs[1], "long": rl[0] if rl[0] == "ok" else rl[1]},
                        {"op": c.op, "short": sdesc, "short_kwargs": {k: v for k, v in skw2.items()}, "long": ldesc, "long_kwargs": lkw2,
                         "inputs": [np.asarray(a).tolist() for a in c.arrays],
                         "short_result": rs[1] if rs[0] == "exc" else [x.tolist() for x in rs[1]],
                         "long_result": rl[1] if rl[0] == "exc" else [x.tolist() for x in rl[1]],
                         "messages": [rs[3] if rs[0] == "exc" else "", rl[3] if rl[0] == "exc" else ""]}))
    return out


def ellipsis_implicit_items(rng, n):
    """omitted outputs of descriptions that contain an ellipsis: 's..., s...' = 's..., s... -> s...', 'b [s]...' = 'b [s]... -> b [s]...'"""
    items = []
    g = gencalls.G(rng)
    while len(items) < n:
        pre = g.pick_axes(rng.randint(0, 2), sizes=[2, 3], maxprod=9)
        post = g.pick_axes(rng.randint(0, 1), exclude={a.name for a in pre}, sizes=[2, 3], maxprod=3)
        ell = [rng.choice([2, 3]) for _ in range(rng.randint(0, 2))]
        style = rng.choice(["anon", "named", "named"])
        e_txt = "..." if style == "anon" else "zz..."
        shape = tuple([a.size for a in pre] + ell + [a.size for a in post])
        r = rng.random()
        if r < 0.6:
            op = rng.choice(["add", "multiply", "maximum", "where"])
            k = 3 if op == "where" else 2
            x = " ".join([a.name for a in pre] + [e_txt] + [a.name for a in post])
            arrays = [gencalls.int_data(rng, shape) for _ in range(k)]
            if op == "where":
                arrays[0] = arrays[0] > 0
            short = ", ".join([x] * k)
            long_ = short + " -> " + x
            fam = "elementwise"
        else:
            op = rng.choice(["flip", "softmax", "sort", "cumsum"] if False else ["flip", "softmax", "sort"])
            if style == "anon":
                x = " ".join([a.name for a in pre] + ["[...]"] + [a.name for a in post])
            else:
                x = " ".join([a.name for a in pre] + ["[zz]..."] + [a.name for a in post])
            if not ell:
                continue
            arrays = [gencalls.int_data(rng, shape).astype(np.float64) if op == "softmax" else gencalls.int_data(rng, shape)]
            if op == "sort" and len(ell) != 1:
                continue
            short, long_ = x, x + " -> " + x
            fam = "preserve"
        c = gencalls.Call(fam, op, [], [], arrays, desc=short)
        items.append((c, "implicit_output_ellipsis", short, {}, long_, {}))
    return items


def sized_ellipsis_items(rng, n):
    """two ellipsis axes that each carry a size keyword and repeat a different number of times, against the written-out form;
    the sizes as a tuple per repetition, or as one scalar when all repetitions agree"""
    items = []
    while len(items) < n:
        k1, k2 = rng.choice([(1, 2), (2, 1), (2, 2), (1, 3), (3, 1), (2, 3), (1, 1)])
        same1, same2 = rng.random() < 0.5, rng.random() < 0.5
        d1 = [rng.choice([2, 3])] * k1 if same1 else [rng.choice([2, 3]) for _ in range(k1)]
        d2 = [rng.choice([2, 3])] * k2 if same2 else [rng.choice([2, 3]) for _ in range(k2)]
        s1, s2 = [rng.choice([1, 2]) for _ in range(k1)], [rng.choice([1, 2]) for _ in range(k2)]
        x = gencalls.int_data(rng, tuple(a * b for a, b in zip(s1, d1)))
        y = gencalls.int_data(rng, tuple(a * b for a, b in zip(s2, d2)))
        op = rng.choice(["add", "multiply", "subtract"])
        short = "(s ds)..., (t dt)... -> s... ds... t... dt..."
        kw_short = {"ds": d1[0] if (same1 and rng.random() < 0.6) else tuple(d1), "dt": d2[0] if (same2 and rng.random() < 0.6) else tuple(d2)}
        sn, dn = [f"s{i}" for i in range(k1)], [f"ds{i}" for i in range(k1)]
        tn, en = [f"t{i}" for i in range(k2)], [f"dt{i}" for i in range(k2)]
        long_ = (" ".join(f"({a} {b})" for a, b in zip(sn, dn)) + ", " + " ".join(f"({a} {b})" for a, b in zip(tn, en))
                 + " -> " + " ".join(sn + dn + tn + en))
        kw_long = {**dict(zip(dn, d1)), **dict(zip(en, d2))}
        c = gencalls.Call("elementwise", op, [], [], [x, y], desc=short)
        items.append((c, "sized_ellipses_of_different_rank", short, kw_short, long_, kw_long))
    return items


def ellipsis_bracket_mismatch_items(rng, n):
    """an ellipsis that is bracketed in one place and not in another - ill-formed; the anonymous '...' is one shared named ellipsis,
    so the short form must be refused exactly like the long form"""
    items = []
    while len(items) < n:
        k = rng.randint(1, 2)
        shape = tuple([rng.choice([2, 3])] + [rng.choice([2, 3]) for _ in range(k)])
        x = gencalls.int_data(rng, shape).astype(np.float64)
        op, short, long_ = rng.choice([
            ("sum", "b [...] -> b ...", "b [s...] -> b s..."),
            ("softmax", "b [...] -> b ...", "b [s...] -> b s..."),
            ("flip", "b ... -> b [...]", "b s... -> b [s...]"),
            ("sum", "[...] b -> ... b", "[s...] b -> s... b"),
        ])
        fam = "reduce" if op == "sum" else "preserve"
        c = gencalls.Call(fam, op, [], [], [x], desc=short)
        items.append((c, "anonymous_ellipsis_bracket_mismatch", short, {}, long_, {}))
    return items


def handwritten_items(rng, n):
    """shorthand corners that the generated trees do not reach: (1) an un-bracketed reduction whose input holds a number and whose
    output holds a number of the same value - every number is an axis of its own, so the input's one is reduced like any axis the
    output lacks; (2) keepdims=True with several brackets written next to each other - one unit axis per written bracket, as in the
    documented spelling with parentheses"""
    items = []
    for _ in range(n):
        a, b, k = rng.choice([2, 3]), rng.choice([2, 4]), rng.choice([2, 3, 5])
        op = rng.choice(["sum", "max", "prod"])
        x = np.arange(a * b * k).reshape(a, b, k) % 7
        which = rng.random()
        if which < 0.15:
            # (3) a number inside the bracket of an operation that keeps the shape (the output is the input's text): a number is an axis
            op2 = rng.choice(["softmax", "flip", "sort", "log_softmax"])
            xf = (np.arange(a * b * k).reshape(a, b, k) % 7).astype("float64")
            c = gencalls.Call("preserve", op2, [], [], [xf], desc=f"a b [{k}]")
            items.append((c, "number_in_bracket_of_shape_preserving_operation", f"a b [{k}]", {}, "a b [c]", {"c": k}))
        elif which < 0.35:
            c = gencalls.Call("reduce", op, [], [], [x], desc=f"a b {k} -> a {k}")
            items.append((c, "automark_number_on_both_sides", f"a b {k} -> a {k}", {}, f"a [b] [{k}] -> a {k}", {}))
        elif which < 0.55:
            x2 = np.arange(a * k * b).reshape(a * k, b) % 7
            c = gencalls.Call("reduce", op, [], [], [x2], desc=f"(a {k}) b -> a {k}")
            items.append((c, "automark_number_on_both_sides", f"(a {k}) b -> a {k}", {}, f"(a [{k}]) [b] -> a {k}", {}))
        else:
            d = rng.choice([1, 2])
            x4 = np.arange(a * b * k * d).reshape(a, b, k, d) % 5
            lay = rng.choice([("a [b] [c] d", "a ([b]) ([c]) d"), ("[a] [b] c d", "([a]) ([b]) c d"), ("a b [c] [d]", "a b ([c]) ([d])"),
                              ("[a] [b] [c] d", "([a]) ([b]) ([c]) d")])
            c = gencalls.Call("reduce", op, [], [], [x4], desc=lay[0])
            items.append((c, "keepdims_adjacent_written_brackets", lay[0], {"keepdims": True}, lay[1], {}))
    return items


def make_items(rng, n):
    items = []
    tries = 0
    while len(items) < n and tries < n * 20:
        tries += 1
        c = gencalls.gen_call(rng)
        f = rng.choice(PAIRS)
        try:
            p = f(c, rng)
        except Exception:  # noqa: BLE001
            p = None
        if p is None:
            continue
        items.append((c,) + p)
    return items + ellipsis_implicit_items(rng, max(8, n // 25)) + sized_ellipsis_items(rng, max(8, n // 25)) + number_nondividing_items(rng, max(8, n // 25)) + repeated_group_number_items(rng, max(12, n // 25)) + ellipsis_bracket_mismatch_items(rng, max(8, n // 40)) + handwritten_items(rng, max(12, n // 25))


def run(ctx):
    import einx  # noqa: F401
    n = 500 if ctx.tier == "quick" else 20000
    items = make_items(ctx.rng, n)
    res = common.pmap(_work, items)
    kinds = {}
    for it, viol in zip(items, res):
        kinds[it[1]] = kinds.get(it[1], 0) + 1
        for tags, payload in viol:
            ctx.report(tags, payload)
        ctx.distinct.add(it[1] + "|" + it[2] + "|" + it[4])
    for it in items[:6]:
        ctx.sample({"shorthand": it[1], "op": it[0].op, "short": it[2], "long": it[4]})
    ctx.coverage.update({
        "evaluations": len(items) * len(BACKENDS) * 2,
        "rule": "(short, long) pairs derived from generated explicit calls: implicit output, automatic bracketing, number vs named axis, "
                "anonymous / named ellipsis vs written-out axes, keepdims vs parenthesised brackets, adjacent brackets, redundant spaces, "
                "rearrange vs id, unit coordinate bracket; distinct_nontrivial = distinct (kind, short, long)",
        "input_distribution": {"shorthand": kinds, "backends": BACKENDS},
    })


def replay(ctx, path):
    data = json.load(open(path))
    print(json.dumps({k: data.get(k) for k in ("tags", "op", "short", "short_kwargs", "long", "long_kwargs", "short_result", "long_result", "messages")}, indent=1)[:3000])
    print(f"VIOLATION property=C07 replay={path}")
    return 1
