"""C15 - adapted user functions follow loop-notation semantics; their outputs are checked.

Recording numpy functions are wrapped with einx.numpy.adapt_numpylike_reduce /
adapt_numpylike_elementwise and called with generated descriptions of the matching family.  The
result must equal the reference plan (extracted Spec/LoopSem.v) evaluated with the same function;
the function must have received what the adapter documents (one tensor and the tuple of bracket
positions as axis= / broadcast-compatible tensors of equal rank); keyword-only parameters are
forwarded verbatim, can never act as axis sizes, and clash with axis names as SemanticError;
wrong type / shape / arity of the return value must make the call fail.  adapt_with_vmap needs a
framework with vmap, none is installed: not exercised (stated in the evidence)."""
import json

import numpy as np

from . import common, gencalls
from .common import sx


def make_reduce(log, mode="sum", bad=None):
    def user(x, axis, *, scale=1, offset=0, tag="default"):
        log.append({"n_pos": 1, "shape": tuple(np.shape(x)), "axis": axis, "scale": scale, "offset": offset, "type": type(x).__name__, "tag": tag})
        r = np.asarray((np.sum(x, axis=axis) if mode == "sum" else np.max(x, axis=axis)) * scale + offset)
        if bad == "type":
            return r.tolist()
        if bad == "type_duck":
            # not an ndarray although shape and conversion look right (numpy reductions over all axes return numpy scalars)
            return r[()] if r.ndim == 0 else memoryview(np.ascontiguousarray(r))
        if bad == "shape":
            return np.expand_dims(r, 0)
        if bad == "arity":
            return (r, r)
        return r
    return user


def make_elementwise(log, bad=None):
    def user(*xs, weight=1, tag="default"):
        log.append({"n_pos": len(xs), "shapes": [tuple(np.shape(x)) for x in xs], "weight": weight, "tag": tag})
        r = xs[0] * weight
        for y in xs[1:]:
            r = r + y
        r = np.asarray(r)
        if bad == "type":
            return r.tolist()
        if bad == "type_duck":
            return r[()] if r.ndim == 0 else memoryview(np.ascontiguousarray(r))
        if bad == "shape":
            return np.expand_dims(r, 0)
        return r
    return user


def _work(item):
    import einx
    c, plan, seed = item
    import random
    rng = random.Random(seed)
    out = []
    log = []
    try:
        exp_plain = None
        if c.family == "reduce":
            scale, offset = rng.choice([1, 2, 3]), rng.choice([0, 5])
            fn = einx.numpy.adapt_numpylike_reduce(make_reduce(log, "sum"))
            kwargs_user = {"scale": scale, "offset": offset} if rng.random() < 0.7 else {}
            c2 = gencalls.Call("reduce", "sum", c.ins, c.outs, c.arrays, desc=c.desc)
            exp = gencalls.evaluate(c2, plan)[0] * kwargs_user.get("scale", 1) + kwargs_user.get("offset", 0)
        else:
            weight = rng.choice([1, 2, -1])
            fn = einx.numpy.adapt_numpylike_elementwise(make_elementwise(log))
            kwargs_user = {"weight": weight} if rng.random() < 0.7 else {}
            # plan: out[pos] = x0[src0] * weight + sum others
            flats = [np.asarray(a).reshape(-1) for a in c.arrays]
            opos = np.array([int(r[0]) for r in plan], dtype=np.int64)
            srcs = np.array([[int(v) for v in r[1]] for r in plan], dtype=np.int64).reshape(len(plan), len(flats))
            vals = flats[0][srcs[:, 0]] * kwargs_user.get("weight", 1)
            for k in range(1, len(flats)):
                vals = vals + flats[k][srcs[:, k]]
            osh = gencalls.shape_of(c.outs[0])
            exp = gencalls.scatter(int(np.prod(osh)), opos, vals, vals.dtype).reshape(osh)
    except gencalls.PlanError as e:
        return [({"kind": "spec_rejects_generated_call"}, {"call": c.record(), "detail": str(e)})]
    kw = dict(c.size_kwargs())
    # 1. value + received arguments, twice (second call hits the cache, possibly with other keyword values)
    for step in ("first", "repeat_other_keywords"):
        log.clear()
        if step == "repeat_other_keywords" and kwargs_user:
            if c.family == "reduce":
                kwargs_user = {"scale": kwargs_user["scale"] + 1, "offset": kwargs_user["offset"]}
                exp = gencalls.evaluate(gencalls.Call("reduce", "sum", c.ins, c.outs, c.arrays, desc=c.desc), plan)[0] * kwargs_user["scale"] + kwargs_user["offset"]
            else:
                continue
        try:
            r = common.with_alarm(30, fn, c.desc, *[np.array(a) for a in c.arrays], **kw, **kwargs_user)
        except BaseException as e:  # noqa: BLE001
            out.append(({"kind": "adapter_call_fails", "step": step, "family": c.family, "exc": common.classify_exc(e)},
                        {"call": c.record(), "user_kwargs": kwargs_user, "message": str(e)[:300]}))
            return out
        if not gencalls.matches(np.asarray(exp), r):
            out.append(({"kind": "adapter_wrong_value", "step": step, "family": c.family},
                        {"call": c.record(), "user_kwargs": kwargs_user, "expected": np.asarray(exp).tolist(), "observed": np.asarray(r).tolist()}))
        if len(log) != 1:
            out.append(({"kind": "user_function_call_count", "count": len(log), "family": c.family}, {"call": c.record()}))
            continue
        rec = log[0]
        if c.family == "reduce":
            # without any bracket, brackets are placed automatically around every axis that does not appear in the
            # output: that includes the anonymous axes written as numbers (a '1' of the input is not the '1' of the output)
            automark = not any(l.marked for l in gencalls.leaves(c.ins[0]))
            mk = (lambda l: l.marked or (automark and l.number))
            leaves = [l for l in gencalls.leaves(c.ins[0]) if not (l.size == 1 and not mk(l))]
            want_shape = tuple(l.size for l in leaves)
            want_axis = tuple(i for i, l in enumerate(leaves) if mk(l))
            ax = rec["axis"]
            ax = tuple(ax) if isinstance(ax, (tuple, list)) else (ax,)
            if rec["n_pos"] != 1 or rec["shape"] != want_shape or ax != want_axis:
                out.append(({"kind": "reduce_adapter_arguments", "family": c.family},
                            {"call": c.record(), "received": {k: str(v) for k, v in rec.items()}, "documented": {"shape": str(want_shape), "axis": str(want_axis)}}))
            if (rec["scale"], rec["offset"]) != (kwargs_user.get("scale", 1), kwargs_user.get("offset", 0)):
                out.append(({"kind": "keyword_only_not_forwarded_verbatim"}, {"call": c.record(), "received": str(rec), "given": kwargs_user}))
        else:
            ranks = {len(s) for s in rec["shapes"]}
            ok = len(ranks) == 1
            if ok:
                try:
                    np.broadcast_shapes(*rec["shapes"])
                except ValueError:
                    ok = False
            if not ok or rec["n_pos"] != len(c.arrays):
                out.append(({"kind": "elementwise_adapter_arguments"}, {"call": c.record(), "received": str(rec)}))
            if rec["weight"] != kwargs_user.get("weight", 1):
                out.append(({"kind": "keyword_only_not_forwarded_verbatim"}, {"call": c.record(), "received": str(rec), "given": kwargs_user}))
    # 2. an axis named like a keyword-only parameter is a SemanticError, never a size
    kwname = "scale" if c.family == "reduce" else "weight"
    names = [l.name for t in c.ins for l in gencalls.leaves(t) if not l.number and l.size != 1]
    if names:
        old = names[0]
        import re
        desc2 = re.sub(r"(?<![A-Za-z0-9_])" + re.escape(old) + r"(?![A-Za-z0-9_])", kwname, c.desc)
        kw2 = {(kwname if k == old else k): v for k, v in kw.items()}
        try:
            common.with_alarm(30, fn, desc2, *[np.array(a) for a in c.arrays], **kw2)
            out.append(({"kind": "keyword_name_used_as_axis_accepted", "family": c.family}, {"desc": desc2, "kwargs": kw2}))
        except BaseException as e:  # noqa: BLE001
            if common.classify_exc(e) != "SemanticError":
                out.append(({"kind": "keyword_axis_clash_wrong_error", "exc": common.classify_exc(e)}, {"desc": desc2, "message": str(e)[:200]}))
    # 2c. a keyword-only parameter WITHOUT a default is a parameter of the function all the same: forwarded verbatim, never a size
    got = {}
    # the parameter's name is drawn from names that resemble what the adapters reserve ("axis") or use themselves
    used = {l.name for t in c.ins + c.outs for l in gencalls.leaves(t)}
    pname = rng.choice([n for n in ("factor", "s", "a", "i", "ax", "xi", "xis", "axi", "axes", "axis_", "keepdim", "dims", "op")
                        if n not in used])
    ns = {"np": np, "got": got}
    if c.family == "reduce":
        exec(f"def required_kw(x_, axis, *, {pname}):\n    got['factor'] = {pname}\n    return np.asarray(np.sum(x_, axis=axis) * {pname})", ns)
        fn_req = einx.numpy.adapt_numpylike_reduce(ns["required_kw"])
        base_val = gencalls.evaluate(gencalls.Call("reduce", "sum", c.ins, c.outs, c.arrays, desc=c.desc), plan)[0]
    else:
        exec(f"def required_kw(*xs_, {pname}):\n    got['factor'] = {pname}\n    r = xs_[0] * {pname}\n    for y_ in xs_[1:]:\n        r = r + y_\n"
             f"    return np.asarray(r)", ns)
        fn_req = einx.numpy.adapt_numpylike_elementwise(ns["required_kw"])
        base_val = None
    fv = rng.choice([2, 3, -1])
    try:
        r = common.with_alarm(30, fn_req, c.desc, *[np.array(a) for a in c.arrays], **kw, **{pname: fv})
        if got.get("factor") != fv or (base_val is not None and not gencalls.matches(np.asarray(base_val * fv), r)):
            out.append(({"kind": "keyword_only_not_forwarded_verbatim", "required": True, "name": pname}, {"call": c.record(), "received": str(got), "given": fv}))
    except BaseException as e:  # noqa: BLE001
        out.append(({"kind": "adapter_call_fails", "step": "required_keyword_only", "family": c.family, "exc": common.classify_exc(e)},
                    {"call": c.record(), "parameter": pname, "message": str(e)[:300]}))
    # 2d. repeated calls with keyword values that compare equal but differ in type (also inside tuples): each call's function
    #     receives its own values - (2, 3) then (2.0, 3.0) then (True, 3)
    seen_vals = []

    def tuple_kw(*xs, coeffs=(1, 1), **_ignored):
        seen_vals.append(coeffs)
        r = xs[0] * coeffs[0]
        return np.asarray(r + coeffs[1] if c.family == "reduce" else r)
    if c.family == "reduce":
        def tuple_kw_reduce(x, axis, *, coeffs=(1, 1)):
            seen_vals.append(coeffs)
            return np.asarray(np.sum(x, axis=axis) * coeffs[0] + coeffs[1])
        fn_t = einx.numpy.adapt_numpylike_reduce(tuple_kw_reduce)
    else:
        fn_t = einx.numpy.adapt_numpylike_elementwise(tuple_kw) if len(c.arrays) == 1 else None
    if fn_t is not None:
        for coeffs in ((2, 3), (2.0, 3.0), (True, 3), (2, 3)):
            seen_vals.clear()
            try:
                common.with_alarm(30, fn_t, c.desc, *[np.array(a) for a in c.arrays], **kw, coeffs=coeffs)
            except BaseException as e:  # noqa: BLE001
                out.append(({"kind": "adapter_call_fails", "step": "tuple_option", "family": c.family, "exc": common.classify_exc(e)},
                            {"call": c.record(), "coeffs": repr(coeffs), "message": str(e)[:300]}))
                break
            got_t = seen_vals[-1] if seen_vals else None
            if got_t is None or tuple(type(v) for v in got_t) != tuple(type(v) for v in coeffs) or tuple(got_t) != coeffs:
                out.append(({"kind": "keyword_only_not_forwarded_verbatim", "tuple_option": True},
                            {"call": c.record(), "given": repr(coeffs), "received": repr(got_t)}))
                break
    # 3. wrong outputs make the call fail
    # 2b. a keyword-only option whose value is None is a value like any other
    log.clear()
    try:
        common.with_alarm(30, fn, c.desc, *[np.array(a) for a in c.arrays], **kw, tag=None)
        if len(log) == 1 and log[0]["tag"] is not None:
            out.append(({"kind": "keyword_only_not_forwarded_verbatim", "value": "None"}, {"call": c.record(), "received": str(log[0]), "given": {"tag": None}}))
    except BaseException as e:  # noqa: BLE001
        out.append(({"kind": "adapter_call_fails", "step": "none_valued_option", "family": c.family, "exc": common.classify_exc(e)},
                    {"call": c.record(), "message": str(e)[:300]}))
    # 2c. option values that need care when they are written into the generated code: strings with quotes, backslashes, line
    # breaks, non-ASCII characters; floats that have no literal (inf, nan); large integers - each must arrive as given
    import math
    specials = ["a\\tb", 'q"q', "it's", "l1\nl2", "tab\there", "\u00e9\u4e2d", "", "'\"", "end\\", float("inf"), -float("inf"), float("nan"), 10 ** 30, -0.0, 1e-320]
    for val in rng.sample(specials, 3):
        log.clear()
        try:
            common.with_alarm(30, fn, c.desc, *[np.array(a) for a in c.arrays], **kw, tag=val)
        except BaseException as e:  # noqa: BLE001
            out.append(({"kind": "adapter_call_fails", "step": "special_option_value", "family": c.family, "exc": common.classify_exc(e)},
                        {"call": c.record(), "given": {"tag": repr(val)}, "message": str(e)[-300:]}))
            continue
        if len(log) != 1:
            continue
        got = log[0]["tag"]
        same = (isinstance(got, float) and math.isnan(got)) if (isinstance(val, float) and math.isnan(val)) else \
               (type(got) is type(val) and got == val and (not isinstance(val, float) or math.copysign(1, got) == math.copysign(1, val)))
        if not same:
            out.append(({"kind": "keyword_only_not_forwarded_verbatim", "value": "special"}, {"call": c.record(), "received": repr(got), "given": {"tag": repr(val)}}))
    for bad in (("type", "type_duck", "shape", "arity") if c.family == "reduce" else ("type", "type_duck", "shape")):
        l2 = []
        fnb = (einx.numpy.adapt_numpylike_reduce(make_reduce(l2, "sum", bad=bad)) if c.family == "reduce"
               else einx.numpy.adapt_numpylike_elementwise(make_elementwise(l2, bad=bad)))
        try:
            r = common.with_alarm(30, fnb, c.desc, *[np.array(a) for a in c.arrays], **kw)
            if bad == "shape" and np.shape(r) == np.shape(exp):
                continue   # the extra unit axis did not change the shape the adapter checks (cannot happen for expand_dims)
            out.append(({"kind": "bad_user_output_accepted", "bad": bad, "family": c.family}, {"call": c.record(), "returned": str(type(r))}))
        except BaseException:  # noqa: BLE001
            pass
    return out


def run(ctx):
    import einx  # noqa: F401
    n = 300 if ctx.tier == "quick" else 8000
    cases = []
    while len(cases) < n:
        fam = ctx.rng.choice(["reduce", "elementwise"])
        c = gencalls.gen_call(ctx.rng, fam)
        if fam == "elementwise":
            c.arrays = [gencalls.int_data(ctx.rng, np.shape(a)) for a in c.arrays]
            c.op = "add"
        else:
            c.arrays = [gencalls.int_data(ctx.rng, np.shape(c.arrays[0]))]
            c.op = "sum"
        cases.append(c)
    # a bracket that holds several axes, one of them of length 1: the function still receives every bracketed axis
    for _ in range(12 if ctx.tier == "quick" else 300):
        nm = ctx.rng.sample(["a", "b", "c", "d"], 3)
        sizes = [ctx.rng.choice([2, 3]), 1, ctx.rng.choice([2, 4])]
        ctx.rng.shuffle(sizes)
        axes = [gencalls.Ax(n_, s_) for n_, s_ in zip(nm, sizes)]
        k = ctx.rng.randrange(3)
        for i, a in enumerate(axes):
            a.marked = (i != k) if sizes[k] != 1 else (i != k)
        if sum(1 for a in axes if a.marked and a.size == 1) == 0:
            continue
        dims = [a.copy() for a in axes]
        outs = [[a.copy() for a in axes if not a.marked]]
        c = gencalls.Call("reduce", "sum", [dims], outs, [gencalls.int_data(ctx.rng, gencalls.shape_of(dims))])
        c.describe(ctx.rng)
        cases.append(c)
    plans = ctx.model.batch([sx(gencalls.plan_request(c)) for c in cases])
    items = [(c, p, ctx.rng.randrange(1 << 30)) for c, p in zip(cases, plans)]
    res = common.pmap(_work, items)
    fam = {}
    for c, viol in zip(cases, res):
        fam[c.family] = fam.get(c.family, 0) + 1
        for tags, payload in viol:
            ctx.report(tags, payload)
        ctx.distinct.add(c.family + "|" + c.desc)
    for c in cases[:4]:
        ctx.sample(c.record())
    ctx.coverage.update({
        "evaluations": len(cases) * 6,
        "rule": "recording user functions under adapt_numpylike_reduce / adapt_numpylike_elementwise on generated descriptions; value vs the "
                "extracted reference plan, received arguments vs the adapter documentation, keyword-only forwarding (first call and cached "
                "repeat with other values), axis/keyword clash, wrong type/shape/arity returns; distinct_nontrivial = distinct (family, description)",
        "input_distribution": {"family": fam, "adapt_with_vmap": "not exercised: no framework with vmap is importable in this sandbox"},
    })


def replay(ctx, path):
    data = json.load(open(path))
    print(json.dumps(data, indent=1)[:3000])
    print(f"VIOLATION property=C15 replay={path}")
    return 1
