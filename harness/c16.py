"""C16 - results are reproducible across processes, hash seeds and repeated calls.

A pickled list of generated calls is executed by fresh interpreter processes under different
PYTHONHASHSEED values (each call 1x or 3x, list order shuffled per process); digests of integer
results / rounded float results / exception classes must be identical across processes, and two
graph=True requests in one process must return identical text."""
import hashlib
import json
import os
import pickle
import subprocess
import sys
import tempfile

import numpy as np

from . import common, gencalls

WORKER = os.path.join(os.path.dirname(os.path.abspath(__file__)), "c16_worker.py")


def collision_cases(rng, n):
    """set_at / add_at calls whose coordinates collide on purpose (the winner must not depend on the hash seed)"""
    out = []
    g = gencalls.G(rng)
    from .gencalls import Ax
    # coordinates and updates list the same vectorised axes in different orders: the order of the
    # loop nest einx builds is then decided by a tie-break
    for _ in range(n // 2):
        vec = g.pick_axes(rng.randint(2, 3), maxprod=30, sizes=[2, 3])
        tgt = Ax("n", rng.choice([2, 3, 5]), marked=True)
        p1, p2 = g.perm(vec), g.perm(vec)
        op = rng.choice(["set_at", "set_at", "add_at"])
        csh = gencalls.shape_of(p1)
        coords = np.array([rng.randrange(min(2, tgt.size)) for _ in range(int(np.prod(csh)))], dtype=np.int64).reshape(csh)
        upd = gencalls.int_data(rng, gencalls.shape_of(p2), 1, 99, ramp=True)
        c = gencalls.Call("update_at", op, [[tgt.copy()], [a.copy() for a in p1], [a.copy() for a in p2]], [[tgt.copy()]],
                          [np.zeros((tgt.size,), dtype=np.int64), coords, upd])
        c.describe(rng)
        out.append(c)
    while len(out) < n:
        c = gencalls.gen_index(g, update=True)
        for a in c.arrays[1:-1]:
            a[...] = a % 2     # few distinct coordinates: many loop iterations address the same element
        if all(int(np.prod(gencalls.shape_of(t))) <= 4096 for t in c.ins):
            c.describe(rng)
            out.append(c)
    return out


def run(ctx):
    n = 160 if ctx.tier == "quick" else 3000
    seeds = [0, 1, 2, 3, 7, 42, 1234, 99999] if ctx.tier == "quick" else list(range(48)) + [2 ** 31 - 1, 4294967295]
    cases = [gencalls.gen_call(ctx.rng) for _ in range(n)] + collision_cases(ctx.rng, n // 4)
    fam = {}
    for c in cases:
        fam[c.family] = fam.get(c.family, 0) + 1
        ctx.distinct.add(c.op + "|" + c.desc)
    payload = [(c.op, c.desc, c.arrays, {**c.size_kwargs(), **c.extra_kwargs}) for c in cases]
    tmp = tempfile.mkdtemp(prefix="c16_", dir=os.path.join(common.VERIF, "work") if os.path.isdir(os.path.join(common.VERIF, "work")) else None)
    pk = os.path.join(tmp, "cases.pkl")
    with open(pk, "wb") as f:
        pickle.dump(payload, f)
    procs = []
    for i, s in enumerate(seeds):
        env = dict(os.environ, PYTHONHASHSEED=str(s), EINX_REPO=common.REPO)
        procs.append((s, subprocess.Popen([sys.executable, WORKER, pk, str(i)], stdout=subprocess.PIPE, stderr=subprocess.PIPE, text=True, env=env)))
    outs = {}
    for s, p in procs:
        o, e = p.communicate(timeout=3000)
        if p.returncode != 0:
            ctx.tie_breaks.append({"correspondence": "hash-seed worker crashed", "seed": s, "stderr": e[-1500:]})
            continue
        outs[s] = json.loads(o)
    ref_seed = seeds[0]
    ref = outs.get(ref_seed)
    if ref is not None:
        for s, o in outs.items():
            for k, (a, b) in enumerate(zip(ref["digests"], o["digests"])):
                if a != b:
                    c = cases[k]
                    ctx.report({"kind": "differs_across_hash_seeds", "family": c.family, "op": c.op},
                               {"call": c.record(), "inputs": [np.asarray(x).tolist() for x in c.arrays], "seed_a": ref_seed, "seed_b": s,
                                "result_a": ref["values"][k], "result_b": o["values"][k]})
            for k in o["graph_text_unstable"]:
                ctx.report({"kind": "graph_text_differs_within_process", "family": cases[k].family}, {"call": cases[k].record(), "seed": s})
            for k in o["repeat_unstable"]:
                ctx.report({"kind": "repeat_differs_within_process", "family": cases[k].family}, {"call": cases[k].record(), "seed": s})
    for f in os.listdir(tmp):
        os.remove(os.path.join(tmp, f))
    os.rmdir(tmp)
    for c in cases[:4]:
        ctx.sample(c.record())
    ctx.coverage.update({
        "evaluations": len(cases) * len(outs) * 2,
        "rule": "generated calls (+ update_at calls with deliberately colliding coordinates) executed in one fresh process per "
                "PYTHONHASHSEED value, shuffled order, some repeated 3x, graph=True twice; distinct_nontrivial = distinct (op, description)",
        "input_distribution": {"family": fam, "hash_seeds": seeds, "processes_completed": len(outs)},
    })


def replay(ctx, path):
    data = json.load(open(path))
    print(json.dumps({k: data.get(k) for k in ("tags", "call", "seed_a", "seed_b", "result_a", "result_b")}, indent=1)[:3000])
    call = data.get("call")
    if not call:
        return 1
    code = ("import sys, json, numpy as np; sys.path.insert(0, %r); import einx; d=json.load(open(%r)); c=d['call']; "
            "kw={k:(tuple(v) if isinstance(v,list) else v) for k,v in c['kwargs'].items()}; "
            "print(np.asarray(getattr(einx,c['op'])(c['desc'], *[np.array(a) for a in d['inputs']], **kw)).tolist())") % (common.REPO, path)
    res = set()
    for s in [data.get("seed_a", 0), data.get("seed_b", 1), 5, 6, 7, 8]:
        o = subprocess.run([sys.executable, "-c", code], env=dict(os.environ, PYTHONHASHSEED=str(s)), capture_output=True, text=True)
        print("PYTHONHASHSEED", s, "->", o.stdout.strip()[:300], o.stderr.strip()[-200:])
        res.add(o.stdout.strip())
    if len(res) > 1:
        print(f"VIOLATION property=C16 replay={path}")
        return 1
    return 0
