"""C16 - results are reproducible across processes, hash seeds and repeated calls.

A pickled list of generated calls is executed by fresh interpreter processes under different
PYTHONHASHSEED values (each call 1x or 3x, list order shuffled per process); digests of integer
results / rounded float results / exception classes must be identical across processes, and two
graph=True requests in one process must return identical text."""
import hashlib
import json
import os
import pickle
import subprocess
import sys
import tempfile

import numpy as np

from . import common, gencalls

WORKER = os.path.join(os.path.dirname(os.path.abspath(__file__)), "c16_worker.py")


def collision_cases(rng, n):
    """set_at / add_at calls whose coordinates collide on purpose (the winner must not depend on the hash seed)"""
    out = []
    g = gencalls.G(rng)
    from .gencalls import Ax
    # coordinates and updates list the same vectorised axes in different orders: the order of the
    # loop nest einx builds is then decided by a tie-break
    for _ in range(n // 2):
        vec = g.pick_axes(rng.randint(2, 3), maxprod=30, sizes=[2, 3])
        tgt = Ax("n", rng.choice([2, 3, 5]), marked=True)
        p1, p2 = g.perm(vec), g.perm(vec)
        op = rng.choice(["set_at", "set_at", "add_at"])
        csh = gencalls.shape_of(p1)
        coords = np.array([rng.randrange(min(2, tgt.size)) for _ in range(int(np.prod(csh)))], dtype=np.int64).reshape(csh)
        upd = gencalls.int_data(rng, gencalls.shape_of(p2), 1, 99, ramp=True)
        c = gencalls.Call("update_at", op, [[tgt.copy()], [a.copy() for a in p1], [a.copy() for a in p2]], [[tgt.copy()]],
                          [np.zeros((tgt.size,), dtype=np.int64), coords, upd])
        c.describe(rng)
        out.append(c)
    while len(out) < n:
        c = gencalls.gen_index(g, update=True)
        for a in c.arrays[1:-1]:
            a[...] = a % 2     # few distinct coordinates: many loop iterations address the same element
        if all(int(np.prod(gencalls.shape_of(t))) <= 4096 for t in c.ins):
            c.describe(rng)
            out.append(c)
    return out


def tie_cases(rng, n):
    """element-wise calls without '->' in which several inputs are equally good candidates for the output
    (every process must take the same decision: the same exception class or the same values)"""
    out = []
    g = gencalls.G(rng)
    while len(out) < n:
        axes = g.pick_axes(rng.randint(2, 3), maxprod=60, sizes=[2, 3, 4])
        k = rng.choice([2, 2, 3])
        ins = [g.perm(axes) for _ in range(k)]
        if rng.random() < 0.3:
            ins[-1] = ins[-1][:-1] or ins[-1]            # one proper sub-expression among the tied ones
        op = rng.choice(["add", "multiply", "maximum", "subtract", "where"] if k == 3 else ["add", "multiply", "maximum", "subtract", "less"])
        if op == "where" and k != 3:
            continue
        arrays = [gencalls.int_data(rng, gencalls.shape_of(t), 1, 50, ramp=True) for t in ins]
        if op == "where":
            arrays[0] = arrays[0] % 2 == 0
        desc = ", ".join(" ".join(a.name for a in t) for t in ins)
        out.append({"op": op, "desc": desc, "arrays": arrays, "kw": {}, "family": "implicit_output_tie"})
    return out


def shorthand_cases(rng, n):
    """the short forms of generated calls (implicit output, automatic brackets, ellipsis, numbers, ...):
    every default that einx fills in must be filled in the same way in every process"""
    from . import c07
    out = []
    for it in c07.make_items(rng, n):
        c, name, sd, skw, ld, lkw = it
        kw = {**c.size_kwargs(), **c.extra_kwargs}
        fn, arrays = c.op, c.arrays
        for k, v in skw.items():
            if k == "__drop__":
                for nm in v:
                    kw.pop(nm, None)
            elif k == "__fn__":
                fn = v
            elif k == "__arrays__":
                arrays = v
            else:
                kw[k] = v
        out.append({"op": fn, "desc": sd, "arrays": arrays, "kw": kw, "family": "shorthand:" + name})
    return out


def factory_cases(rng, n):
    """the same call with tensor factories of one Python type but different signatures, in a process-dependent order"""
    out = []
    g = gencalls.G(rng)
    while len(out) < n:
        axes = g.pick_axes(2, maxprod=40, sizes=[2, 3, 4])
        sub = [axes[rng.randrange(2)]]
        x = gencalls.int_data(rng, gencalls.shape_of(axes), 1, 50, ramp=True)
        desc = " ".join(a.name for a in axes) + ", " + sub[0].name
        op = rng.choice(["add", "multiply"])
        for kind in rng.sample(["plain", "named", "kwargs", "sig"], 3):
            out.append({"op": op, "desc": desc, "arrays": [x, "factory:" + kind], "kw": {}, "family": "factory:" + kind})
    return out


def solve_cases(rng, n):
    """solve_axes / solve_shapes / matches on the input expressions of generated calls (numbers, flattened axes, ellipses)"""
    out = []
    while len(out) < n:
        c = gencalls.gen_call(rng, rng.choice(["id", "elementwise", "reduce", "dot"]))
        ins = c.desc.split(" -> ")[0]
        if "[" in ins:
            continue
        fn = rng.choice(["solve_axes", "solve_axes", "solve_shapes", "matches"])
        if fn == "matches":
            out.append({"op": fn, "desc": ins.split(", ")[0], "arrays": [c.arrays[0]], "kw": dict(c.size_kwargs()), "family": "solve:" + fn})
        else:
            out.append({"op": fn, "desc": ins, "arrays": list(c.arrays), "kw": dict(c.size_kwargs()), "family": "solve:" + fn})
    return out


def cse_cases(rng, n):
    """a run of three or more axes that is flattened together with different neighbours on the two sides: only the product of
    the run is determined, and the solver has to pick the same common sub-expression in every process"""
    out = []
    g = gencalls.G(rng)
    while len(out) < n:
        k = rng.randint(3, 4)
        axes = g.pick_axes(k + 2, maxprod=400, sizes=[1, 2, 2, 3])
        run, x, y = axes[:k], axes[k], axes[k + 1]
        R = " ".join(a.name for a in run)
        nR = int(np.prod([a.size for a in run]))
        t = rng.randrange(4)
        if t == 0:
            desc, shape, kw, op = f"({R} {x.name}) {y.name} -> ({R} {y.name}) {x.name}", (nR * x.size, y.size), {x.name: x.size, y.name: y.size}, "id"
        elif t == 1:
            desc, shape, kw, op = f"{x.name} ({R}) -> ({x.name} {R})", (x.size, nR), {}, "id"
        elif t == 2:
            desc, shape, kw, op = f"({R} {x.name}) -> ({R})", (nR * x.size,), {x.name: x.size}, "sum"
        else:
            desc, shape, kw, op = f"({x.name} {R} {y.name}) -> ({R}) ({x.name} {y.name})", (x.size * nR * y.size,), {x.name: x.size, y.name: y.size}, "id"
        out.append({"op": op, "desc": desc, "arrays": [gencalls.int_data(rng, shape, 1, 50, ramp=True)], "kw": kw, "family": "cse_run"})
    return out


def ambiguous_cases(rng, n):
    """systems that several assignments of axis lengths satisfy (only a product, only a sum, or both are known): whatever einx
    does with them - an error today - it does the same in every process"""
    out = []
    names = "abcdefgh"
    while len(out) < n:
        a, b, c = rng.sample(names, 3)
        p, q = rng.choice([2, 3, 4, 5]), rng.choice([2, 3, 4, 5])
        while p == q:
            q = rng.choice([2, 3, 4, 5, 6])
        t = rng.randrange(5)
        if t == 0:
            desc, shapes = f"({a} {b}) ({a} + {b})", [(p * q, p + q)]
        elif t == 1:
            desc, shapes = f"({a} {b}), ({a} + {b})", [(p * q,), (p + q,)]
        elif t == 2:
            desc, shapes = f"({a} {b}) {c}", [(p * q, rng.choice([1, 2, 3]))]
        elif t == 3:
            desc, shapes = f"({a} + {b}) {c}", [(p + q, rng.choice([1, 2, 3]))]
        else:
            desc, shapes = f"({a} {b}) ({b} {c}) ({a} {c})", [(p * q, q * 2, p * 2)]
        arrays = [gencalls.int_data(rng, sh, 1, 50, ramp=True) for sh in shapes]
        fn = rng.choice(["solve_axes", "solve_shapes", "id"])
        if fn == "id":
            ins = desc.split(", ")
            outs = [" ".join(sorted(set(ch for ch in i if ch.isalpha()))) for i in ins]
            out.append({"op": "id", "desc": desc + " -> " + ", ".join(outs), "arrays": arrays, "kw": {}, "family": "ambiguous:id"})
        else:
            out.append({"op": fn, "desc": desc, "arrays": arrays, "kw": {}, "family": "ambiguous:" + fn})
    return out


def record_of(e):
    return {"op": e["op"], "desc": e["desc"], "kwargs": {k: (list(v) if isinstance(v, tuple) else v) for k, v in e["kw"].items()},
            "shapes": [list(np.shape(a)) if not isinstance(a, str) else a for a in e["arrays"]], "family": e["family"]}


def seeds_of(tier):
    return [0, 1, 2, 3, 7, 42, 1234, 99999] if tier == "quick" else list(range(48)) + [2 ** 31 - 1, 4294967295]


def build_cases(rng, tier):
    n = 160 if tier == "quick" else 3000
    gen = [gencalls.gen_call(rng) for _ in range(n)] + collision_cases(rng, n // 4)
    cases = [{"op": c.op, "desc": c.desc, "arrays": c.arrays, "kw": {**c.size_kwargs(), **c.extra_kwargs}, "family": c.family} for c in gen]
    cases += tie_cases(rng, n // 4) + shorthand_cases(rng, n // 2) + factory_cases(rng, n // 8) + solve_cases(rng, n // 2) + cse_cases(rng, n // 4) + ambiguous_cases(rng, n // 8)
    return cases


def run_workers(cases, seeds, which=None):
    payload = [(c["op"], c["desc"], c["arrays"], c["kw"]) for c in cases]
    tmp = tempfile.mkdtemp(prefix="c16_")
    pk = os.path.join(tmp, "cases.pkl")
    with open(pk, "wb") as f:
        pickle.dump(payload, f)
    procs, outs, crashed = [], {}, []
    for i, s in enumerate(seeds):
        if which is not None and i not in which:
            continue
        env = dict(os.environ, PYTHONHASHSEED=str(s), EINX_REPO=common.REPO)
        procs.append((s, subprocess.Popen([sys.executable, WORKER, pk, str(i)], stdout=subprocess.PIPE, stderr=subprocess.PIPE, text=True, env=env)))
    for s, p in procs:
        o, e = p.communicate(timeout=3000)
        if p.returncode != 0:
            crashed.append((s, e[-1500:]))
            continue
        outs[s] = json.loads(o)
    for f in os.listdir(tmp):
        os.remove(os.path.join(tmp, f))
    os.rmdir(tmp)
    return outs, crashed


def run(ctx):
    seeds = seeds_of(ctx.tier)
    cases = build_cases(ctx.rng, ctx.tier)
    fam = {}
    for c in cases:
        fam[c["family"]] = fam.get(c["family"], 0) + 1
        ctx.distinct.add(c["op"] + "|" + c["desc"])
    outs, crashed = run_workers(cases, seeds)
    for sd, err in crashed:
        ctx.tie_breaks.append({"correspondence": "hash-seed worker crashed", "seed": sd, "stderr": err})
    ref_seed = seeds[0]
    ref = outs.get(ref_seed)
    if ref is not None:
        for s, o in outs.items():
            for k, (a, b) in enumerate(zip(ref["digests"], o["digests"])):
                if a != b:
                    c = cases[k]
                    ctx.report({"kind": "differs_across_processes", "family": c["family"].split(":")[0], "op": c["op"]},
                               {"call": record_of(c), "inputs": [np.asarray(x).tolist() if not isinstance(x, str) else x for x in c["arrays"]],
                                "seed_a": ref_seed, "seed_b": s, "process_a": 0, "process_b": seeds.index(s),
                                "result_a": ref["values"][k], "result_b": o["values"][k], "case_index": k,
                                "corpus": {"verif_seed": ctx.seed, "tier": ctx.tier},
                                "note": "each process runs the whole corpus in its own shuffled order under its own PYTHONHASHSEED"})
            for k in o["graph_text_unstable"]:
                ctx.report({"kind": "graph_text_differs_within_process", "family": cases[k]["family"]}, {"call": record_of(cases[k]), "seed": s})
            for k in o["repeat_unstable"]:
                ctx.report({"kind": "repeat_differs_within_process", "family": cases[k]["family"]}, {"call": record_of(cases[k]), "seed": s})
    for c in cases[:2] + cases[-2:]:
        ctx.sample(record_of(c))
    exc = {}
    if ref is not None:
        for d in ref["digests"]:
            if d.startswith("EXC:"):
                exc[d[4:]] = exc.get(d[4:], 0) + 1
    ctx.coverage.update({
        "evaluations": len(cases) * len(outs) * 2,
        "rule": "generated calls, update_at calls with deliberately colliding coordinates, element-wise calls with tied implicit outputs, "
                "short forms of generated calls, solve_axes / solve_shapes / matches, and calls with tensor factories of equal type but different signatures, executed in one "
                "fresh process per PYTHONHASHSEED value, each process in its own shuffled order, some calls repeated 3x, graph=True twice; "
                "distinct_nontrivial = distinct (op, description)",
        "input_distribution": {"family": fam, "hash_seeds": seeds, "processes_completed": len(outs), "exception_classes_in_reference_process": exc},
    })


def replay(ctx, path):
    import random
    data = json.load(open(path))
    print(json.dumps({k: data.get(k) for k in ("tags", "call", "seed_a", "seed_b", "result_a", "result_b")}, indent=1)[:3000])
    call = data.get("call")
    if not call:
        return 1
    if not any(isinstance(a, str) for a in data.get("inputs", [])):
        # 1. the call alone, in fresh processes under several hash seeds
        code = ("import sys, json, numpy as np; sys.path.insert(0, %r); import einx; d=json.load(open(%r)); c=d['call']; "
                "kw={k:(tuple(v) if isinstance(v,list) else v) for k,v in c['kwargs'].items()}; "
                "print(np.asarray(getattr(einx,c['op'])(c['desc'], *[np.array(a) for a in d['inputs']], **kw)).tolist())") % (common.REPO, path)
        res = set()
        for s in [data.get("seed_a", 0), data.get("seed_b", 1), 5, 6, 7, 8]:
            o = subprocess.run([sys.executable, "-c", code], env=dict(os.environ, PYTHONHASHSEED=str(s)), capture_output=True, text=True)
            print("PYTHONHASHSEED", s, "->", o.stdout.strip()[:300], o.stderr.strip()[-200:])
            res.add(o.stdout.strip() + "|" + o.stderr.strip().splitlines()[-1][:60] if o.stderr.strip() else o.stdout.strip())
        if len(res) > 1:
            print(f"VIOLATION property=C16 replay={path}")
            return 1
    # 2. the two processes of the original run (the difference may need the calls that came before)
    corpus = data.get("corpus")
    if corpus and "case_index" in data:
        cases = build_cases(random.Random(corpus["verif_seed"]), corpus["tier"])
        seeds = seeds_of(corpus["tier"])
        outs, crashed = run_workers(cases, seeds, which={data.get("process_a", 0), data.get("process_b", 1)})
        k = data["case_index"]
        ds = {s: o["digests"][k] for s, o in outs.items()}
        print("digests of case", k, "in the two processes:", ds)
        if len(set(ds.values())) > 1:
            print(f"VIOLATION property=C16 replay={path}")
            return 1
    return 0
