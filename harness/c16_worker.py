"""worker of the C16 check: runs the pickled calls in this (fresh) process; prints JSON digests"""
import hashlib
import json
import os
import pickle
import random
import signal
import sys

sys.path.insert(0, os.environ.get("EINX_REPO", "/repo"))
import numpy as np  # noqa: E402


def digest(r):
    h = hashlib.sha1()
    if isinstance(r, dict):        # solve_axes: axis name -> value(s)
        r = tuple(x for k in sorted(r) for x in (np.asarray([ord(ch) for ch in k]), np.asarray(r[k])))
    elif isinstance(r, bool):
        r = (np.asarray(r),)
    rs = r if isinstance(r, tuple) else (r,)
    vals = []
    for x in rs:
        x = np.asarray(x)
        if x.dtype.kind == "f":
            x = np.round(x, 9) + 0.0
        h.update(str(x.shape).encode() + str(x.dtype).encode() + x.tobytes())
        vals.append(x.tolist() if x.size <= 64 else "large")
    return h.hexdigest(), vals


def make_factory(kind):
    # all of one Python type (plain functions); the signatures decide which optional keywords einx passes
    if kind == "plain":
        def f(shape):
            return np.arange(int(np.prod(shape)), dtype=np.int64).reshape(shape) - 2
    elif kind == "named":
        def f(shape, name="none", arg_index=-7):
            return np.arange(int(np.prod(shape)), dtype=np.int64).reshape(shape) + 1000 * (arg_index + 8) + len(name)
    elif kind == "kwargs":
        def f(shape, **kwargs):
            return np.arange(int(np.prod(shape)), dtype=np.int64).reshape(shape) + 100 * len(kwargs)
    else:
        def f(shape, signature=None):
            return np.arange(int(np.prod(shape)), dtype=np.int64).reshape(shape) + (5 if signature is None else 50)
    return f


def mkargs(arrays):
    return [make_factory(a.split(":")[1]) if isinstance(a, str) else np.array(a) for a in arrays]


def main():
    cases = pickle.load(open(sys.argv[1], "rb"))
    idx = int(sys.argv[2])
    import einx
    order = list(range(len(cases)))
    random.Random(idx).shuffle(order)
    digests = [None] * len(cases)
    values = [None] * len(cases)
    graph_unstable, repeat_unstable = [], []

    def alarm(*a):
        raise TimeoutError()
    signal.signal(signal.SIGALRM, alarm)
    for k in order:
        op, desc, arrays, kw = cases[k]
        reps = 3 if (k + idx) % 5 == 0 else 1
        seen = []
        for _ in range(reps):
            args = mkargs(arrays)
            signal.alarm(600)
            try:
                d, v = digest(getattr(einx, op)(desc, *args, **kw))
            except BaseException as e:  # noqa: BLE001
                t = type(e)
                d, v = "EXC:" + getattr(t, "__module__", "") + "." + t.__name__, "exception " + t.__name__
            signal.alarm(0)
            seen.append(d)
        digests[k], values[k] = seen[0], v
        if len(set(seen)) > 1:
            repeat_unstable.append(k)
        if k % 3 == 0 and not op.startswith("solve") and op != "matches":
            try:
                t1 = getattr(einx, op)(desc, *mkargs(arrays), graph=True, **kw)
                t2 = getattr(einx, op)(desc, *mkargs(arrays), graph=True, **kw)
                if str(t1) != str(t2):
                    graph_unstable.append(k)
            except BaseException:  # noqa: BLE001
                pass
    print(json.dumps({"digests": digests, "values": values, "graph_text_unstable": graph_unstable, "repeat_unstable": repeat_unstable}))


main()
