"""Shared machinery of the /verif checks: Coq build, model runner, implementation workers,
known findings, replay files, evidence.  Run with /venv/bin/python; einx is imported from /repo."""
import hashlib
import json
import os
import random
import re
import signal
import subprocess
import sys
import time
import traceback

VERIF = os.path.dirname(os.path.dirname(os.path.abspath(__file__)))
REPO = os.environ.get("EINX_REPO", "/repo")
COQ = os.path.join(VERIF, "coq")
OCAML = os.path.join(VERIF, "ocaml")
MODEL_BIN = os.path.join(OCAML, "einxmodel")
NPROC = min(16, os.cpu_count() or 4)

os.environ.setdefault("PYTHONHASHSEED", "0")
os.environ["EINX_VERIF"] = "1"
if REPO not in sys.path:
    sys.path.insert(0, REPO)


# ------------------------------------------------------------------ s-expressions
def sx(x):
    """python value -> wire text.  str = atom, int = atom, bool -> T/F, list/tuple -> list, None -> ()"""
    if isinstance(x, bool):
        return "T" if x else "F"
    if isinstance(x, int):
        return str(x)
    if isinstance(x, str):
        assert re.fullmatch(r"[A-Za-z0-9_.\-]+", x), x
        return x
    if x is None:
        return "()"
    return "(" + " ".join(sx(y) for y in x) + ")"


def parse_sx(s):
    pos = 0
    n = len(s)

    def item():
        nonlocal pos
        while pos < n and s[pos] == " ":
            pos += 1
        if s[pos] == "(":
            pos += 1
            out = []
            while True:
                while pos < n and s[pos] == " ":
                    pos += 1
                if s[pos] == ")":
                    pos += 1
                    return out
                out.append(item())
        st = pos
        while pos < n and s[pos] not in " ()":
            pos += 1
        return s[st:pos]

    return item()


def codes(text):
    return [ord(c) for c in text]


def uncodes(lst):
    return "".join(chr(int(c)) for c in lst)


# ------------------------------------------------------------------ model runner
class Model:
    """Runs the extracted model binary on a batch of wire lines (parallel shards)."""

    def __init__(self):
        self.calls = 0

    def batch(self, lines, shards=None):
        if not lines:
            return []
        self.calls += len(lines)
        shards = shards or (1 if len(lines) < 2000 else NPROC)
        chunks = [lines[i::shards] for i in range(shards)]
        procs = []
        for ch in chunks:
            p = subprocess.Popen(["sh", "-c", "ulimit -s unlimited 2>/dev/null; exec " + MODEL_BIN],
                                 stdin=subprocess.PIPE, stdout=subprocess.PIPE, text=True)
            procs.append(p)
        outs = []
        # feed in threads to avoid pipe deadlock
        import threading
        results = [None] * shards

        def feed(i):
            o, _ = procs[i].communicate("\n".join(chunks[i]) + "\n")
            results[i] = o.split("\n")

        ths = [threading.Thread(target=feed, args=(i,)) for i in range(shards)]
        for t in ths:
            t.start()
        for t in ths:
            t.join()
        out = [None] * len(lines)
        for i in range(shards):
            res = [r for r in results[i] if r != ""]
            if len(res) != len(chunks[i]):
                raise RuntimeError(f"model binary returned {len(res)} lines for {len(chunks[i])} cases (crash?)")
            for k, r in enumerate(res):
                out[i + k * shards] = parse_sx(r)
        return out


# ------------------------------------------------------------------ build
def sh(cmd, timeout, cwd=None):
    t0 = time.time()
    try:
        p = subprocess.run(cmd, shell=True, cwd=cwd, capture_output=True, text=True, timeout=timeout)
        return p.returncode, p.stdout + p.stderr, time.time() - t0
    except subprocess.TimeoutExpired as e:
        return 124, f"TIMEOUT after {timeout}s: {cmd}\n{e.stdout or ''}{e.stderr or ''}", time.time() - t0


def ensure_makefile():
    mk = os.path.join(COQ, "Makefile")
    cp = os.path.join(COQ, "_CoqProject")
    if not os.path.exists(mk) or os.path.getmtime(mk) < os.path.getmtime(cp):
        sh("coq_makefile -f _CoqProject -o Makefile", 60, cwd=COQ)


def translate():
    """regenerate coq/theories/Gen/*.v from /repo; returns (ok, message)"""
    rc, out, _ = sh(f"{sys.executable} {VERIF}/gen/translate.py", 120)
    return rc == 0, out


def coq_cone(roots, skip=()):
    """the .v files (relative to coq/) that the given ones transitively Require, read from their Require lines"""
    import re as _re
    seen, todo = set(), list(roots)
    while todo:
        f = todo.pop()
        if f in seen or f in skip or not os.path.exists(os.path.join(COQ, f)):
            continue
        seen.add(f)
        for line in open(os.path.join(COQ, f)).read().split("."  + "\n"):
            if "Require" in line:
                for d, m in _re.findall(r"\b(Base|Gen|Model|Spec|Proofs|Props)\.(\w+)", line):
                    todo.append(f"theories/{d}/{m}.v")
    return seen


def translate_for(prop):
    """-> (ok, message): a kernel that no longer translates breaks the tie of the properties whose theorems or whose executable model
    are built on the generated file; the other properties' obligations do not mention it"""
    import re as _re
    ok, out = translate()
    if ok:
        return ok, out
    failed = _re.findall(r"^FAILED-GEN (\S+)", out, _re.M)
    if not failed:
        return False, out
    # the executable model serves every harness; its wire commands that only one property's harness sends count for that property
    only = {"theories/Model/JoinIO.v": "C14"}
    cone = coq_cone([f"theories/Props/{prop}.v", f"theories/Props/{prop}Deep.v", "theories/Extract.v"], skip=[f for f, p in only.items() if p != prop])
    relevant = [f for f in failed if f"theories/Gen/{f}" in cone]
    if relevant:
        return False, out
    return True, "kernels outside this property's cone no longer translate (reported by the properties built on them): " + ", ".join(failed)


def build_targets(targets, timeout=1500, jobs=NPROC):
    """build .vo targets (relative to coq/); returns dict target -> (ok, log)"""
    ensure_makefile()
    res = {}
    rc, out, _ = sh(f"make -j{jobs} -k {' '.join(targets)}", timeout, cwd=COQ)
    if rc == 0:
        return {t: (True, "") for t in targets}
    for t in targets:
        rc1, out1, _ = sh(f"make -j{jobs} {t}", timeout, cwd=COQ)
        res[t] = (rc1 == 0, out1[-4000:])
    return res


def build_model():
    ensure_makefile()
    os.makedirs(os.path.join(OCAML, "gen"), exist_ok=True)       # Extract.v writes there (the directory is not tracked)
    rc, out, _ = sh(f"make -j{NPROC} theories/Extract.vo", 900, cwd=COQ)
    if rc != 0:
        return False, out[-4000:]
    gen = os.path.join(OCAML, "gen", "einxmodel.ml")
    if (not os.path.exists(MODEL_BIN)) or os.path.getmtime(MODEL_BIN) < os.path.getmtime(gen) \
            or os.path.getmtime(MODEL_BIN) < os.path.getmtime(os.path.join(OCAML, "driver.ml")):
        rc, out, _ = sh("./build.sh", 300, cwd=OCAML)
        if rc != 0:
            return False, out[-4000:]
    return True, ""


def print_assumptions(vo_log):
    """extract 'Closed under the global context' / axiom lists from a coqc log"""
    return vo_log


# ------------------------------------------------------------------ implementation side
class Timeout(Exception):
    pass


def _alarm(signum, frame):
    raise Timeout()


def with_alarm(seconds, fn, *a, **k):
    """the limit counts CPU time of this process (a loaded machine is not a hang); wall-clock time is only a distant backstop
    for a call that blocks without computing"""
    old = signal.signal(signal.SIGALRM, _alarm)
    oldp = signal.signal(signal.SIGPROF, _alarm)
    signal.setitimer(signal.ITIMER_PROF, seconds)
    signal.setitimer(signal.ITIMER_REAL, seconds * 20)
    try:
        return fn(*a, **k)
    finally:
        signal.setitimer(signal.ITIMER_PROF, 0)
        signal.setitimer(signal.ITIMER_REAL, 0)
        signal.signal(signal.SIGPROF, oldp)
        signal.signal(signal.SIGALRM, old)


EINX_ERRORS = ("SyntaxError", "RankError", "AxisSizeError", "SemanticError", "OperationNotSupportedError",
               "BackendResolutionError", "ImportBackendError", "CallOperationError")


def classify_exc(e):
    """exception -> small enum string"""
    t = type(e)
    mod = getattr(t, "__module__", "")
    name = t.__name__
    if isinstance(e, Timeout):
        return "TIMEOUT"
    if mod == "einx.errors" and name in EINX_ERRORS:
        return name
    if name in ("ValueError", "TypeError") and mod == "builtins":
        return name
    return "INTERNAL:" + name


def exc_site(e):
    """innermost einx frame 'file.py:lineno' of an exception (for known-finding selectors)"""
    tb = traceback.extract_tb(e.__traceback__)
    site = ""
    for fr in tb:
        if "/einx/" in fr.filename:
            site = fr.filename.split("/einx/", 1)[1] + ":" + str(fr.lineno)
    return site


_PMAP = {}


def _pmap_call(i):
    return _PMAP["fn"](_PMAP["items"][i])


def pmap(fn, items, procs=NPROC, chunksize=None):
    """fork-based parallel map (workers inherit the imported einx and the items themselves, so
    items need not be picklable; results must be); order-preserving"""
    import multiprocessing as mp
    items = list(items)
    if len(items) < 32 or procs <= 1:
        return [fn(x) for x in items]
    _PMAP["fn"], _PMAP["items"] = fn, items
    ctx = mp.get_context("fork")
    try:
        with ctx.Pool(procs) as pool:
            return pool.map(_pmap_call, range(len(items)), chunksize=chunksize or max(1, len(items) // (procs * 8)))
    finally:
        _PMAP.clear()


# ------------------------------------------------------------------ findings / replays / evidence
def load_known(prop):
    p = os.path.join(VERIF, "known_findings.json")
    if not os.path.exists(p):
        return []
    data = json.load(open(p))
    return [f for f in data.get("findings", []) if f["property"] == prop and f.get("status", "open") == "open"]


def match_known(known, tags):
    """a finding matches when every selector key is present in tags and its regex fully matches"""
    for f in known:
        sel = f["selector"]
        if all(k in tags and re.fullmatch(v, str(tags[k]), re.S) for k, v in sel.items()):
            return f
    return None


def write_replay(prop, payload):
    d = os.path.join(VERIF, "replays", prop)
    os.makedirs(d, exist_ok=True)
    blob = json.dumps(payload, sort_keys=True, default=str)
    h = hashlib.sha1(blob.encode()).hexdigest()[:12]
    path = os.path.join(d, h + ".json")
    with open(path, "w") as f:
        json.dump(payload, f, indent=1, sort_keys=True, default=str)
    return path


class Ctx:
    """state of one check run"""

    def __init__(self, prop, tier, seed):
        self.prop = prop
        self.tier = tier
        self.seed = seed
        self.rng = random.Random(seed)
        self.t0 = time.time()
        self.model = Model()
        self.known = load_known(prop)
        self.violations = []        # list of (tags, payload)
        self.known_hits = {}        # finding id -> count
        self.obligations = []       # (name, ok, detail)
        self.coverage = {}
        self.assumptions = []
        self.evaluations = 0
        self.distinct = set()
        self.samples = []
        self.tie_breaks = []        # names of correspondences that no longer check (no failing input)

    # a disagreement / failing input on the implementation
    def report(self, tags, payload):
        f = match_known(self.known, tags)
        if f is not None:
            self.known_hits.setdefault(f["id"], [f, 0, payload])
            self.known_hits[f["id"]][1] += 1
            return
        if len(self.violations) < 50:
            self.violations.append((tags, payload))

    def obligation(self, name, ok, detail=""):
        self.obligations.append((name, bool(ok), detail))

    def sample(self, x, limit=6):
        if len(self.samples) < limit:
            self.samples.append(x)

    def finish(self):
        """prints KNOWN-FINDING / VIOLATION lines, writes evidence, returns exit code"""
        for fid, (f, n, payload) in sorted(self.known_hits.items()):
            print(f"KNOWN-FINDING: property={self.prop} {f['id']} {f['what_fails']} (reproduced on {n} case(s) this run)")
        rc = 0
        broken = [o for o in self.obligations if not o[1]]
        # concrete failing inputs first
        seen = set()
        for tags, payload in self.violations:
            key = json.dumps(tags, sort_keys=True, default=str)
            if key in seen:
                continue
            seen.add(key)
            payload = dict(payload)
            payload.update({"property": self.prop, "tags": tags, "seed": self.seed, "tier": self.tier,
                            "broken_obligations": [o[0] for o in broken]})
            path = write_replay(self.prop, payload)
            print(f"VIOLATION property={self.prop} replay={path}")
            rc = 1
            if len(seen) >= 5:
                break
        if rc == 0 and (broken or self.tie_breaks):
            payload = {"property": self.prop, "seed": self.seed, "tier": self.tier,
                       "no_failing_input_found": True,
                       "broken_obligations": [{"name": o[0], "detail": o[2][-3000:]} for o in broken],
                       "broken_correspondences": self.tie_breaks}
            path = write_replay(self.prop, payload)
            print(f"VIOLATION property={self.prop} replay={path} no-failing-input-found")
            rc = 1
        self.write_evidence(rc)
        return rc

    def write_evidence(self, rc):
        cov = dict(self.coverage)
        n_obl = len(self.obligations)
        cov.setdefault("obligations", n_obl)
        cov.setdefault("discharged", sum(1 for o in self.obligations if o[1]))
        cov.setdefault("obligation_names", [o[0] for o in self.obligations])
        cov.setdefault("checker_cmd", f"make -C {COQ} (coqc 8.16.1, full .vo) on the dependency cone of theories/Props/{self.prop}.vo")
        cov.setdefault("trusted_base", TRUSTED_BASE)
        cov.setdefault("evaluations", self.evaluations)
        cov.setdefault("distinct_nontrivial", len(self.distinct))
        cov.setdefault("samples", self.samples)
        cov.setdefault("model_evaluations", self.model.calls)
        cov.setdefault("known_findings_reproduced", {k: v[1] for k, v in self.known_hits.items()})
        ev = {
            "property_id": self.prop,
            "tier": self.tier,
            "seed": self.seed,
            "level": "proof",
            "coverage": cov,
            "assumptions": self.assumptions,
            "wall_s": round(time.time() - self.t0, 2),
            "violations": 0 if rc == 0 else max(1, len(self.violations)),
        }
        os.makedirs(os.path.join(VERIF, "evidence"), exist_ok=True)
        with open(os.path.join(VERIF, "evidence", self.prop + ".json"), "w") as f:
            json.dump(ev, f, indent=1, default=str)


TRUSTED_BASE = [
    "Coq 8.16.1 kernel (coqc, full .vo build; coqchk in the thorough tier); vm_compute only for finite sweeps stated in the theorem; no native_compute",
    "axioms: none declared; Print Assumptions output of every Props theorem is recorded under coverage.print_assumptions",
    "gen/translate.py (Python ast -> Gallina tables in coq/theories/Gen)",
    "extraction: ExtrOcamlBasic only (Extract Inductive bool/option/unit/prod/list/sumbool/sumor, inlined fst/snd/andb/orb/negb), OCaml 4.13.1, ocaml/driver.ml",
    "correspondence harness /verif/harness (generators, canonicalisation, diff); numpy, sympy, CPython are modelled or assumed, not verified",
]


def stable_hash(x):
    return hashlib.sha1(json.dumps(x, sort_keys=True, default=str).encode()).hexdigest()[:16]
