"""Generator of well-formed einx calls with sizes known by construction, their wire form for the
Gallina reference semantics (Spec/LoopSem.v) and the evaluation of an index plan on numpy data.

A tensor expression is a list of dims; a dim is Ax / Fl / Cat.  The generator never asks einx to
solve anything in order to know the expected result: every axis length is chosen here."""
import numpy as np

SIZES = [1, 2, 3, 5, 7]
NAMES = ["a", "b", "c", "d", "e", "f", "g", "h", "ab", "x1", "k_", "B"]


class Ax:
    def __init__(self, name, size, marked=False, number=False):
        self.name, self.size, self.marked, self.number = name, size, marked, number

    def leaves(self):
        return [self]

    def copy(self):
        return Ax(self.name, self.size, self.marked, self.number)


class Fl:
    def __init__(self, cs):
        self.cs = list(cs)

    def leaves(self):
        return [l for c in self.cs for l in c.leaves()]

    def copy(self):
        return Fl([c.copy() for c in self.cs])


class Cat:
    def __init__(self, cs):
        self.cs = list(cs)

    def leaves(self):
        return [l for c in self.cs for l in c.leaves()]

    def copy(self):
        return Cat([c.copy() for c in self.cs])


def dsize(d):
    if isinstance(d, Ax):
        return d.size
    if isinstance(d, Fl):
        return int(np.prod([dsize(c) for c in d.cs], dtype=object)) if d.cs else 1
    return sum(dsize(c) for c in d.cs)


def shape_of(dims):
    return tuple(dsize(d) for d in dims)


def leaves(dims):
    return [l for d in dims for l in d.leaves()]


# ------------------------------------------------------------------ printing
def p_dim(d, in_br=False):
    if isinstance(d, Ax):
        s = str(d.size) if d.number else d.name
        return "[" + s + "]" if d.marked and not in_br else s
    if isinstance(d, Fl):
        ls = d.leaves()
        if ls and all(l.marked for l in ls) and not in_br:
            return "[(" + " ".join(p_dim(c, True) for c in d.cs) + ")]"
        return "(" + " ".join(p_dim(c, in_br) for c in d.cs) + ")"
    return "(" + " + ".join(p_dim(c, in_br) for c in d.cs) + ")"


def p_dims(dims, rng=None):
    """print a tensor expression; adjacent fully-marked top-level dims are merged into one bracket
    with probability 1/2"""
    out = []
    i = 0
    while i < len(dims):
        d = dims[i]
        ls = d.leaves()
        full = bool(ls) and all(l.marked for l in ls)
        if full and rng is not None and rng.random() < 0.5:
            j = i
            grp = []
            while j < len(dims) and dims[j].leaves() and all(l.marked for l in dims[j].leaves()):
                grp.append(p_dim(dims[j], True))
                j += 1
            out.append("[" + " ".join(grp) + "]")
            i = j
        else:
            out.append(p_dim(d))
            i += 1
    return " ".join(out)


# ------------------------------------------------------------------ wire form
class Names:
    def __init__(self):
        self.ids = {}

    def id(self, name):
        return self.ids.setdefault(name, len(self.ids) + 1)


def w_dim(d, names):
    if isinstance(d, Ax):
        return ["ax", names.id(d.name), d.size, bool(d.marked)]
    if isinstance(d, Fl):
        return ["fl", [w_dim(c, names) for c in d.cs]]
    return ["cat", [w_dim(c, names) for c in d.cs]]


def w_dims(dims, names):
    return [w_dim(d, names) for d in dims]


# ------------------------------------------------------------------ building blocks
class G:
    """random source with helpers"""

    def __init__(self, rng):
        self.rng = rng
        self.fresh = 0

    def pick_axes(self, n, exclude=(), sizes=SIZES, maxprod=400):
        names = [x for x in NAMES if x not in exclude]
        self.rng.shuffle(names)
        out = []
        prod = 1
        for nm in names[:n]:
            s = self.rng.choice(sizes)
            if prod * s > maxprod:
                s = 1 if prod * 2 > maxprod else 2
            prod *= s
            out.append(Ax(nm, s))
        return out

    def unit(self):
        self.fresh += 1
        return Ax(f"unit{self.fresh}", 1, number=True)

    def arrange(self, axes, units=0.15, flat=0.3, depth=0):
        """axes (in order) -> dims: random grouping into (nested) flattened axes, random unit axes"""
        rng = self.rng
        items = [a.copy() for a in axes]
        k = 0
        while k <= len(items):
            if rng.random() < units:
                items.insert(k, self.unit())
                k += 1
            k += 1
        dims = []
        i = 0
        while i < len(items):
            if rng.random() < flat and depth < 2:
                n = rng.randint(0, min(3, len(items) - i))
                grp = items[i:i + n]
                if any(isinstance(g, Ax) and g.marked for g in grp) and not all(g.marked for g in grp if isinstance(g, Ax)):
                    # mixed marking inside one flattened axis is legal: "(a [b])"
                    pass
                dims.append(Fl(self.arrange_inner(grp, depth + 1)))
                i += n
            else:
                dims.append(items[i])
                i += 1
        return dims

    def arrange_inner(self, items, depth):
        rng = self.rng
        if len(items) >= 2 and rng.random() < 0.25 and depth < 2:
            k = rng.randint(1, len(items) - 1)
            return [Fl(items[:k])] + items[k:]
        return items

    def perm(self, xs):
        xs = list(xs)
        self.rng.shuffle(xs)
        return xs


def int_data(rng, shape, lo=-9, hi=9, ramp=None):
    n = int(np.prod(shape)) if len(shape) else 1
    if ramp is None:
        ramp = rng.random() < 0.5
    if ramp:
        a = np.arange(n, dtype=np.int64) + rng.randint(0, 5)
    else:
        a = np.array([rng.randint(lo, hi) for _ in range(n)], dtype=np.int64)
    return a.reshape(shape)


class Call:
    """one generated call: op name, description, numpy arguments, keyword sizes, wire request for
    the reference plan, and the function that evaluates the plan on the data"""

    def __init__(self, family, op, ins, outs, arrays, extra_kwargs=None, desc=None, sizes_mode="needed"):
        self.family, self.op, self.ins, self.outs, self.arrays = family, op, ins, outs, arrays
        self.extra_kwargs = extra_kwargs or {}
        self.desc = desc
        self.sizes_mode = sizes_mode
        self.meta = {}

    def all_axes(self):
        d = {}
        for t in self.ins + self.outs:
            for l in leaves(t):
                if not l.number:
                    d[l.name] = l.size
        return d

    def size_kwargs(self, rng=None):
        axes = self.all_axes()
        if self.sizes_mode == "all":
            return dict(axes)
        top = set()
        for t in self.ins:
            for d in t:
                if isinstance(d, Ax):
                    top.add(d.name)
        return {k: v for k, v in axes.items() if k not in top}

    def describe(self, rng=None):
        if self.desc is None:
            self.desc = ", ".join(p_dims(t, rng) for t in self.ins) + " -> " + ", ".join(p_dims(t, rng) for t in self.outs)
        return self.desc

    def record(self):
        return {"family": self.family, "op": self.op, "desc": self.desc, "shapes": [list(a.shape) if hasattr(a, "shape") else None for a in self.arrays],
                "kwargs": {k: (v if isinstance(v, (int, bool, str, list, tuple)) else repr(v)) for k, v in {**self.size_kwargs(), **self.extra_kwargs}.items()}}


# ------------------------------------------------------------------ families
INT_BINARY = ["add", "subtract", "multiply", "maximum", "minimum", "less", "less_equal", "greater", "greater_equal", "equal", "not_equal", "floor_divide"]
FLOAT_BINARY = ["true_divide", "divide", "logaddexp"]
BOOL_BINARY = ["logical_and", "logical_or"]
UNARY = ["negative", "exp", "log"]
REDUCE_INT = ["sum", "prod", "min", "max", "any", "all", "count_nonzero"]
REDUCE_FLOAT = ["mean", "var", "std", "logsumexp"]
PRESERVE = ["flip", "roll", "roll", "sort", "argsort", "softmax", "log_softmax"]


def gen_id(g, concat=None):
    rng = g.rng
    if concat is None:
        concat = rng.random() < 0.4
    ins, outs = [], []
    if not concat:
        n = rng.choice([1, 1, 1, 2])
        used = set()
        for _ in range(n):
            axes = g.pick_axes(rng.randint(0, 4), exclude=used, maxprod=300)
            used |= {a.name for a in axes}
            in_axes = list(axes)
            if axes and rng.random() < 0.3:
                # diagonal: repeat one name in the input (not only in trailing position), possibly twice
                for _ in range(rng.choice([1, 1, 2])):
                    in_axes.insert(rng.randint(0, len(in_axes)), rng.choice(axes).copy())
            ins.append(g.arrange(in_axes))
            out_axes = g.perm(axes)
            if rng.random() < 0.2:
                b = g.pick_axes(1, exclude=used, sizes=[1, 2, 3], maxprod=3)
                used |= {a.name for a in b}
                out_axes.insert(rng.randint(0, len(out_axes)), b[0])
            outs.append(g.arrange(out_axes))
    else:
        frame = g.pick_axes(rng.randint(0, 2), maxprod=12)
        used = {a.name for a in frame}
        P = rng.randint(2, 3)
        slots = []
        for _ in range(P):
            r = rng.random()
            if r < 0.6:
                s = g.pick_axes(1, exclude=used, maxprod=7)
            elif r < 0.8:
                s = g.pick_axes(2, exclude=used, maxprod=12)
            else:
                s = [g.unit()]
            used |= {a.name for a in s}
            slots.append(s)

        def slot_dim(s):
            return s[0].copy() if len(s) == 1 else Fl([x.copy() for x in s])

        def concatenated():
            fr = g.perm(frame)
            k = rng.randint(0, len(fr))
            cat = Cat([slot_dim(s) for s in slots])
            dims = [a.copy() for a in fr[:k]] + [cat] + [a.copy() for a in fr[k:]]
            for _ in range(2):                                 # the concatenation may end up one or two flattened axes deep
                if len(dims) >= 2 and rng.random() < 0.3:
                    j = rng.randint(0, len(dims) - 2)
                    dims = dims[:j] + [Fl(dims[j:j + 2])] + dims[j + 2:]
            return [dims]

        def separate():
            return [g.arrange(g.perm(frame + s), units=0.05) for s in slots]

        if rng.random() < 0.25:
            # two concatenated axes in one expression (block matrices): the pieces pair with the tensors in row-major order,
            # the leftmost concatenation varying slowest
            slots2 = []
            for _ in range(2):
                s = g.pick_axes(1, exclude=used, maxprod=5)
                used |= {a.name for a in s}
                slots2.append(s)
            slots = slots[:2]
            order = rng.random() < 0.5

            def concatenated():                                     # noqa: F811
                fr = g.perm(frame)
                cats = [Cat([slot_dim(s) for s in slots]), Cat([slot_dim(s) for s in slots2])]
                if not order:
                    cats.reverse()
                k = rng.randint(0, len(fr))
                dims = [a.copy() for a in fr[:k]] + [cats[0]] + [a.copy() for a in fr[k:]]
                dims.insert(rng.randint(dims.index(cats[0]) + 1, len(dims)), cats[1])
                return [dims]

            def separate():                                         # noqa: F811
                first, second = (slots, slots2) if order else (slots2, slots)
                return [g.arrange(g.perm(frame + s1 + s2), units=0.05) for s1 in first for s2 in second]

        mode = rng.choice(["cat->sep", "sep->cat", "cat->cat"])
        ins = concatenated() if mode.startswith("cat") else separate()
        outs = concatenated() if mode.endswith("cat") else separate()
    arrays = [int_data(rng, shape_of(t)) for t in ins]
    return Call("id", "id", ins, outs, arrays)


def gen_elementwise(g):
    rng = g.rng
    op = rng.choice(INT_BINARY * 3 + FLOAT_BINARY + BOOL_BINARY + ["where"])
    n = 1 if op in UNARY else (3 if op == "where" else 2)
    if op in ("add", "multiply", "maximum", "minimum", "logical_and", "logical_or") and rng.random() < 0.2:
        n = 3
    U = g.pick_axes(rng.randint(0, 4), maxprod=300)
    ins = []
    for _ in range(n):
        sub = [a for a in U if rng.random() < 0.7]
        sub = g.perm(sub)
        if sub and rng.random() < 0.15:
            sub.insert(rng.randint(0, len(sub)), rng.choice(sub).copy())
        ins.append(g.arrange(sub))
    present = []
    for t in ins:
        for l in leaves(t):
            if not l.number and l.name not in [p.name for p in present]:
                present.append(l)
    out_axes = g.perm(present)
    if rng.random() < 0.15:
        b = g.pick_axes(1, exclude={a.name for a in U}, sizes=[1, 2, 3], maxprod=3)
        out_axes.insert(rng.randint(0, len(out_axes)), b[0])
    outs = [g.arrange(out_axes)]
    arrays = []
    for k, t in enumerate(ins):
        sh = shape_of(t)
        if op in BOOL_BINARY or (op == "where" and k == 0):
            arrays.append(int_data(rng, sh, 0, 1, ramp=False).astype(bool))
        elif op in ("floor_divide", "true_divide", "divide") and k == 1:
            arrays.append(int_data(rng, sh, 1, 9, ramp=False))
        elif op == "log":
            arrays.append(int_data(rng, sh, 1, 9, ramp=False).astype(np.float64))
        elif op in ("exp", "logaddexp"):
            arrays.append(int_data(rng, sh, -3, 3, ramp=False).astype(np.float64))
        else:
            arrays.append(int_data(rng, sh))
    return Call("elementwise", op, ins, outs, arrays)


def mark_some(rng, axes, kmin=1, kmax=3):
    idx = list(range(len(axes)))
    rng.shuffle(idx)
    k = min(len(axes), rng.randint(kmin, kmax))
    for i in idx[:k]:
        axes[i].marked = True
    return axes


def gen_reduce(g):
    rng = g.rng
    op = rng.choice(REDUCE_INT * 2 + REDUCE_FLOAT)
    U = g.pick_axes(rng.randint(1, 4), maxprod=300)
    if rng.random() >= 0.15:         # 15%: a reduction over no axis at all (the elementary operation still has to be applied)
        mark_some(rng, U, 1, 2)
    elif rng.random() < 0.6:
        op = rng.choice(["var", "std", "count_nonzero", "any", "all", "mean", "logsumexp"])   # not the identity on one element / changes the type
    ins = [g.arrange(g.perm(U))]
    outs = [g.arrange(g.perm([a for a in U if not a.marked]))]
    sh = shape_of(ins[0])
    if op in ("any", "all"):
        arr = int_data(rng, sh, 0, 1, ramp=False).astype(bool) if rng.random() < 0.6 else int_data(rng, sh, -1, 2, ramp=False)
    elif op == "prod":
        arr = int_data(rng, sh, -2, 2, ramp=False)
    elif op in REDUCE_FLOAT:
        arr = int_data(rng, sh, -4, 4, ramp=False).astype(np.float64)
        if op == "logsumexp" and rng.random() < 0.4:
            arr = arr + 900.0 * int_data(rng, sh, -1, 1, ramp=False)
    else:
        arr = int_data(rng, sh)
    return Call("reduce", op, ins, outs, [arr])


def gen_dot(g):
    rng = g.rng
    n = 2 if rng.random() < 0.85 else 3
    axes = g.pick_axes(rng.randint(1, 6), maxprod=200)
    ins_axes = [[] for _ in range(n)]
    out_axes = []
    for a in axes:
        r = rng.random()
        if r < 0.3:      # contracted: in exactly two inputs, marked, not in the output
            i, j = rng.sample(range(n), 2)
            for k in (i, j):
                c = a.copy()
                c.marked = True
                ins_axes[k].append(c)
        elif r < 0.65:   # batch: in two or more inputs and in the output (each input lists its batch axes in its own order)
            ks = rng.sample(range(n), rng.randint(2, n))
            for k in ks:
                ins_axes[k].append(a.copy())
            out_axes.append(a.copy())
        else:            # kept: one input and the output
            ins_axes[rng.randrange(n)].append(a.copy())
            out_axes.append(a.copy())
    # without brackets every axis missing from the output is contracted, unit axes included
    has_br = any(a.marked for x in ins_axes for a in x)
    ins = [g.arrange(g.perm(x), units=0.05 if has_br else 0.0) for x in ins_axes]
    outs = [g.arrange(g.perm(out_axes), units=0.05)]
    arrays = [int_data(rng, shape_of(t), -3, 3) for t in ins]
    return Call("dot", "dot", ins, outs, arrays)


def gen_preserve(g):
    rng = g.rng
    op = rng.choice(PRESERVE)
    if op in ("roll", "flip") and rng.random() < 0.5:
        # axes of pairwise different lengths > 1, so that acting on the wrong axis (or with another axis' length) shows
        U = g.pick_axes(rng.randint(2, 4), maxprod=400, sizes=[2, 3, 4, 5, 7])
        for a, sz in zip(U, rng.sample([2, 3, 4, 5, 7], len(U))):
            a.size = sz
    else:
        U = g.pick_axes(rng.randint(1, 4), maxprod=200)
    mark_some(rng, U, 1, 1 if op in ("sort", "argsort") else 2)
    order = g.perm(U)
    ins = [g.arrange(order)]
    # output: un-bracketed axes may be permuted, bracketed axes keep their relative order
    marked = [a for a in order if a.marked]
    unm = g.perm([a for a in order if not a.marked])
    slots = sorted(rng.sample(range(len(order)), len(marked)))
    out_axes = []
    mi = ui = 0
    for i in range(len(order)):
        if i in slots:
            out_axes.append(marked[mi].copy())
            mi += 1
        else:
            out_axes.append(unm[ui].copy())
            ui += 1
    outs = [g.arrange(out_axes)]
    sh = shape_of(ins[0])
    extra = {}
    if op == "roll":
        nm = len(marked)
        # shifts beyond the axis length and negative ones: rolling is periodic in the length of the ROLLED axis
        extra["shift"] = rng.randint(-9, 9) if nm == 1 and rng.random() < 0.5 else tuple(rng.randint(-9, 9) for _ in range(nm))
    if op in ("softmax", "log_softmax"):
        arr = int_data(rng, sh, -3, 3, ramp=False).astype(np.float64)
        if rng.random() < 0.4:
            # elements (hence whole slices) at very different scales: each slice is normalised by its own maximum
            arr = arr + 900.0 * int_data(rng, sh, -1, 1, ramp=False)
    elif op in ("sort", "argsort"):
        # distinct values along the sorted axis so that argsort is unambiguous
        n = int(np.prod(sh))
        p = list(range(n))
        rng.shuffle(p)
        arr = np.array(p, dtype=np.int64).reshape(sh)
    else:
        arr = int_data(rng, sh)
    return Call("preserve", op, ins, outs, [arr], extra)


def gen_argfind(g):
    rng = g.rng
    op = rng.choice(["argmax", "argmin"])
    U = g.pick_axes(rng.randint(1, 4), maxprod=200)
    mark_some(rng, U, 1, 3)
    ins = [g.arrange(g.perm(U))]
    k = len([a for a in U if a.marked])
    out_axes = g.perm([a.copy() for a in U if not a.marked])
    if k > 1 or rng.random() < 0.4:
        g.fresh += 1
        out_axes.insert(rng.randint(0, len(out_axes)), Ax(f"unit{g.fresh}", k, marked=True, number=True))
    outs = [g.arrange(out_axes, units=0.05, flat=0.15)]
    sh = shape_of(ins[0])
    n = int(np.prod(sh))
    if rng.random() < 0.5:
        p = list(range(n))
        rng.shuffle(p)
        arr = np.array(p, dtype=np.int64).reshape(sh)
    else:
        arr = int_data(rng, sh, 0, 3, ramp=False)   # ties: first occurrence wins
    return Call("argfind", op, ins, outs, [arr])


def gen_index(g, update=False):
    rng = g.rng
    # target: un-bracketed axes Ut, bracketed axes Mt (k of them)
    T = g.pick_axes(rng.randint(1, 4), maxprod=150, sizes=[2, 3, 5, 1])
    mark_some(rng, T, 1, 2)
    Mt = [a for a in T if a.marked]
    Ut = [a for a in T if not a.marked]
    k = len(Mt)
    same_name = k >= 2 and rng.random() < 0.2
    if same_name:
        Mt[1].size = Mt[0].size
    tdims = g.arrange(g.perm(T), units=0.05)
    Mt = [l for l in leaves(tdims) if l.marked]          # order of the bracketed axes in the expression
    if same_name:
        # a square target: the same name for two bracketed axes ("[n n]"); each still takes its own coordinate
        Mt[1].name = Mt[0].name
    extra = g.pick_axes(rng.randint(0, 2), exclude={a.name for a in T}, maxprod=12, sizes=[1, 2, 3])
    vec = Ut + extra
    # split the k coordinates over coordinate tensors
    parts = []
    left = k
    while left > 0:
        c = rng.randint(1, left)
        parts.append(c)
        left -= c
    coords = []
    data = []
    mi = 0
    for c in parts:
        sub = g.perm([a.copy() for a in vec if rng.random() < 0.6])
        if c == 1 and rng.random() < 0.5:
            cd = g.arrange(sub, units=0.05, flat=0.15)
            comp_axis = None
        else:
            g.fresh += 1
            comp = Ax(f"unit{g.fresh}", c, marked=True, number=True)
            sub.insert(rng.randint(0, len(sub)), comp)
            cd = g.arrange(sub, units=0.05, flat=0.0)
            comp_axis = [i for i, d in enumerate(cd) if isinstance(d, Ax) and d.marked][0]
        sh = shape_of(cd)
        arr = np.zeros(sh, dtype=np.int64)
        it = np.ndindex(*sh) if sh else [()]
        for ix in it:
            j = ix[comp_axis] if comp_axis is not None else 0
            arr[ix] = rng.randrange(Mt[mi + j].size)
        coords.append(cd)
        data.append(arr)
        mi += c
    tarr = int_data(rng, shape_of(tdims))
    if not update:
        present = []
        for t in [tdims] + coords:
            for l in leaves(t):
                if not l.marked and not l.number and l.name not in [p.name for p in present]:
                    present.append(l.copy())
        outs = [g.arrange(g.perm(present))]
        return Call("get_at", "get_at", [tdims] + coords, outs, [tarr] + data)
    op = rng.choice(["set_at", "add_at", "subtract_at"])
    cvec = []
    for t in coords:
        for l in leaves(t):
            if not l.marked and not l.number and l.name not in [p.name for p in cvec]:
                cvec.append(l.copy())
    pool = cvec + [a.copy() for a in Ut if a.name not in [p.name for p in cvec]]
    usub = g.perm([a for a in pool if rng.random() < 0.7])
    if rng.random() < 0.35:
        # updates and coordinates each get an axis (of length > 1) that the other lacks
        only_u = [a.copy() for a in Ut if a.size > 1 and a.name not in [p.name for p in cvec]]
        only_c = [a for a in cvec if a.size > 1]
        if only_u and only_c:
            drop = rng.choice(only_c).name
            usub = [a for a in usub if a.name != drop]
            if only_u[0].name not in [a.name for a in usub]:
                usub.append(only_u[0])
            usub = g.perm(usub)
    if rng.random() < 0.3:
        # an axis that occurs in the updates only (every combination with the coordinate axes is one loop iteration)
        fresh = g.pick_axes(1, exclude={a.name for a in T} | {a.name for a in extra}, sizes=[2, 3], maxprod=3)
        usub.insert(rng.randint(0, len(usub)), fresh[0])
    udims = g.arrange(usub, units=0.05, flat=0.15)
    uarr = int_data(rng, shape_of(udims), 1, 9, ramp=(op == "set_at"))
    odims = [d.copy() for d in tdims]
    perm = None
    if len(odims) >= 2 and rng.random() < 0.25:
        # the output expression may list the target's dimensions in another order
        # (dimensions holding a bracketed axis keep their relative order: a stated rule of the operation)
        held = [k for k, d in enumerate(odims) if any(l.marked for l in d.leaves())]
        free = [k for k in range(len(odims)) if k not in held]
        rng.shuffle(free)
        slots = sorted(rng.sample(range(len(odims)), len(held)))
        perm, hi, fi = [], 0, 0
        for pos in range(len(odims)):
            if pos in slots:
                perm.append(held[hi])
                hi += 1
            else:
                perm.append(free[fi])
                fi += 1
        odims = [odims[k] for k in perm]
    c = Call("update_at", op, [tdims] + coords + [udims], [odims], [tarr] + data + [uarr])
    c.out_perm = perm
    return c


def gen_diag_perm(g):
    """a repeated un-bracketed axis (diagonal) at any position followed by a free reordering of three or more remaining
    axes - the shape in which a transpose left by the diagonal meets the layout transpose (distinct lengths throughout)"""
    rng = g.rng
    sizes = rng.sample([2, 3, 4, 5, 6], rng.randint(3, 4))
    names = g.perm(NAMES)[: len(sizes)]
    axes = [Ax(nm, s) for nm, s in zip(names, sizes)]
    in_axes = [a.copy() for a in g.perm(axes)]
    rep = rng.choice(axes)
    for _ in range(rng.choice([1, 1, 2])):
        in_axes.insert(rng.randint(0, len(in_axes)), rep.copy())
    out_axes = [a.copy() for a in g.perm(axes)]
    if rng.random() < 0.5:
        ins = [in_axes]
        outs = [out_axes]
        return Call("id", "id", ins, outs, [int_data(rng, shape_of(in_axes))])
    other = [a.copy() for a in g.perm(axes)][: rng.randint(1, len(axes))]
    ins = [in_axes, other]
    op = rng.choice(["add", "multiply", "subtract", "maximum"])
    return Call("elementwise", op, ins, [out_axes], [int_data(rng, shape_of(t)) for t in ins])


FAMILIES = {
    "id": gen_id, "elementwise": gen_elementwise, "reduce": gen_reduce, "dot": gen_dot, "preserve": gen_preserve,
    "argfind": gen_argfind, "get_at": lambda g: gen_index(g, False), "update_at": lambda g: gen_index(g, True),
}


def gen_call(rng, family=None):
    g = G(rng)
    if family is None:
        family = rng.choice(["id", "id", "elementwise", "elementwise", "reduce", "reduce", "dot", "preserve", "argfind", "get_at", "update_at"])
    for _ in range(50):
        c = gen_diag_perm(g) if (family in ("id", "elementwise") and rng.random() < 0.12) else FAMILIES[family](g)
        if c.family != family:
            continue
        if all(int(np.prod(shape_of(t))) <= 4096 for t in c.ins + c.outs):
            c.describe(rng)
            return c
    raise RuntimeError("generator could not produce a small call")


# ------------------------------------------------------------------ plan request + evaluation
def plan_request(c):
    names = Names()
    wi = [w_dims(t, names) for t in c.ins]
    wo = [w_dims(t, names) for t in c.outs]
    f = c.family
    if f == "id":
        return ["plan_id", [wi, wo]]
    if f == "elementwise":
        return ["plan_elementwise", [wi, wo[0]]]
    if f == "reduce":
        return ["plan_reduce", [wi[0], wo[0]]]
    if f == "dot":
        return ["plan_dot", [wi, wo[0]]]
    if f == "preserve":
        return ["plan_preserve", [wi[0], wo[0]]]
    if f == "argfind":
        return ["plan_argfind", [wi[0], wo[0]]]
    if f == "get_at":
        cs = [[w, [int(x) for x in a.reshape(-1)]] for w, a in zip(wi[1:], c.arrays[1:])]
        return ["plan_get_at", [wi[0], cs, wo[0]]]
    if f == "update_at":
        cs = [[w, [int(x) for x in a.reshape(-1)]] for w, a in zip(wi[1:-1], c.arrays[1:-1])]
        op = {"add_at": "add", "subtract_at": "sub", "set_at": "set"}[c.op]
        return ["plan_update_result", [op, wi[0], cs, wi[-1], [int(x) for x in c.arrays[0].reshape(-1)], [int(x) for x in c.arrays[-1].reshape(-1)]]]
    raise ValueError(f)


def ints(x):
    return np.array([int(v) for v in x], dtype=np.int64)


NP_ELEMENTWISE = {
    "add": np.add, "subtract": np.subtract, "multiply": np.multiply, "true_divide": np.true_divide, "floor_divide": np.floor_divide,
    "divide": np.divide, "logical_and": np.logical_and, "logical_or": np.logical_or, "where": np.where, "maximum": np.maximum,
    "minimum": np.minimum, "less": np.less, "less_equal": np.less_equal, "greater": np.greater, "greater_equal": np.greater_equal,
    "equal": np.equal, "not_equal": np.not_equal, "logaddexp": np.logaddexp, "exp": np.exp, "log": np.log, "negative": np.negative,
}


def _lse(x, axis):
    m = np.max(x, axis=axis, keepdims=True)
    return np.log(np.sum(np.exp(x - m), axis=axis)) + np.squeeze(m, axis=axis)


NP_REDUCE = {
    "sum": np.sum, "mean": np.mean, "var": np.var, "std": np.std, "prod": np.prod, "count_nonzero": np.count_nonzero,
    "all": np.all, "any": np.any, "min": np.min, "max": np.max, "logsumexp": _lse,
}


def nary(f, xs):
    if f in (np.add, np.multiply, np.maximum, np.minimum, np.logical_and, np.logical_or) and len(xs) > 2:
        r = xs[0]
        for y in xs[1:]:
            r = f(r, y)
        return r
    return f(*xs)


class PlanError(Exception):
    pass


def scatter(n, pos, vals, dtype):
    pos = np.asarray(pos, dtype=np.int64)
    if len(pos) != n or (n > 0 and (np.sort(pos) != np.arange(n)).any()):
        raise PlanError("plan does not assign every output position exactly once")
    out = np.zeros(n, dtype=dtype)
    out[pos] = vals
    return out


def evaluate(c, plan):
    """plan (parsed wire) + data -> list of expected output arrays (or for update_at with set: a checker)"""
    if plan == "none" or (isinstance(plan, list) and plan and plan[0] in ("BADCASE", "DRIVERFAIL")):
        raise PlanError(f"model returned {plan}")
    f = c.family
    flats = [np.asarray(a).reshape(-1) for a in c.arrays]
    oshapes = [shape_of(t) for t in c.outs]
    if f == "id":
        outs = []
        rows = np.array([[int(v) for v in r] for r in plan], dtype=np.int64).reshape(-1, 4)
        for k, sh in enumerate(oshapes):
            r = rows[rows[:, 0] == k]
            n = int(np.prod(sh))
            vals = np.zeros(len(r), dtype=flats[0].dtype)
            for ki in range(len(flats)):
                m = r[:, 2] == ki
                vals[m] = flats[ki][r[m, 3]]
            outs.append(scatter(n, r[:, 1], vals, flats[0].dtype).reshape(sh))
        return outs
    if f == "elementwise":
        opos = ints([r[0] for r in plan])
        srcs = np.array([[int(v) for v in r[1]] for r in plan], dtype=np.int64).reshape(len(plan), len(flats))
        xs = [flats[k][srcs[:, k]] for k in range(len(flats))]
        vals = nary(NP_ELEMENTWISE[c.op], xs)
        return [scatter(int(np.prod(oshapes[0])), opos, vals, vals.dtype).reshape(oshapes[0])]
    if f == "reduce":
        opos = ints([r[0] for r in plan])
        K = len(plan[0][1]) if plan else 0
        srcs = np.array([[int(v) for v in r[1]] for r in plan], dtype=np.int64).reshape(len(plan), K)
        sub = flats[0][srcs]
        vals = NP_REDUCE[c.op](sub, axis=1)
        return [scatter(int(np.prod(oshapes[0])), opos, vals, vals.dtype).reshape(oshapes[0])]
    if f == "dot":
        opos = ints([r[0] for r in plan])
        vals = []
        for r in plan:
            tot = 0
            for term in r[1]:
                p = 1
                for k, ps in enumerate(term):
                    p *= int(flats[k][int(ps)])
                tot += p
            vals.append(tot)
        vals = np.array(vals, dtype=np.int64)
        return [scatter(int(np.prod(oshapes[0])), opos, vals, np.int64).reshape(oshapes[0])]
    if f == "preserve":
        mshape = tuple(int(v) for v in plan[0])
        n = int(np.prod(oshapes[0]))
        out = None
        allpos = []
        allvals = []
        for gi, go in plan[1]:
            sub = flats[0][ints(gi)].reshape(mshape)
            axes = tuple(range(len(mshape)))
            if c.op == "flip":
                res = np.flip(sub, axis=axes)
            elif c.op == "roll":
                sh = c.extra_kwargs["shift"]
                res = np.roll(sub, sh if isinstance(sh, tuple) else (sh,), axis=axes)
            elif c.op == "sort":
                res = np.sort(sub, axis=0)
            elif c.op == "argsort":
                res = np.argsort(sub, axis=0, kind="stable")
            elif c.op == "softmax":
                e = np.exp(sub - sub.max())
                res = e / e.sum()
            elif c.op == "log_softmax":
                res = (sub - sub.max()) - np.log(np.exp(sub - sub.max()).sum())
            allpos.extend(int(v) for v in go)
            allvals.append(np.asarray(res).reshape(-1))
        vals = np.concatenate(allvals) if allvals else np.zeros(0)
        return [scatter(n, allpos, vals, vals.dtype).reshape(oshapes[0])]
    if f == "argfind":
        mshape = tuple(int(v) for v in plan[0])
        n = int(np.prod(oshapes[0]))
        allpos, allvals = [], []
        for gi, go in plan[1]:
            sub = flats[0][ints(gi)]
            j = int(np.argmax(sub) if c.op == "argmax" else np.argmin(sub))
            comp = list(np.unravel_index(j, mshape)) if len(go) == len(mshape) else [j]
            if len(go) != len(comp):
                raise PlanError("argfind: number of output components does not match")
            allpos.extend(int(v) for v in go)
            allvals.extend(int(v) for v in comp)
        return [scatter(n, allpos, np.array(allvals, dtype=np.int64), np.int64).reshape(oshapes[0])]
    if f == "get_at":
        opos = ints([r[0] for r in plan])
        src = ints([r[1] for r in plan])
        return [scatter(int(np.prod(oshapes[0])), opos, flats[0][src], flats[0].dtype).reshape(oshapes[0])]
    if f == "update_at":
        # the result itself is computed by the extracted Spec/UpdateSem (apply_acc / apply_set)
        result, plan = plan
        tgt = flats[0].copy()
        upd = flats[-1]
        tp = ints([r[0] for r in plan])
        up = ints([r[1] for r in plan])
        tshape = shape_of(c.ins[0])
        perm = getattr(c, "out_perm", None)
        if c.op in ("add_at", "subtract_at"):
            r = ints(result).reshape(tshape)
            return [np.transpose(r, perm) if perm is not None else r]
        # set_at: every addressed element holds one of the competing values
        cands = {}
        for t, u in zip(tp.tolist(), up.tolist()):
            cands.setdefault(t, set()).add(int(upd[u]))
        base = tgt.reshape(tshape)
        if perm is not None:
            # re-index the target's flat positions by where the output expression puts them
            where = np.transpose(np.arange(base.size).reshape(tshape), perm).reshape(-1)
            cands = {j: cands[int(t)] for j, t in enumerate(where.tolist()) if int(t) in cands}
            base = np.transpose(base, perm)
        return [("set", base, cands)]
    raise ValueError(f)


def matches(expected, got):
    """compare one expected output (array or ('set', base, candidates)) with einx's result"""
    got = np.asarray(got)
    if isinstance(expected, tuple) and expected[0] == "set":
        _, base, cands = expected
        if got.shape != base.shape:
            return False
        g = got.reshape(-1)
        b = base.reshape(-1)
        for i in range(len(b)):
            if i in cands:
                if int(g[i]) not in cands[i]:
                    return False
            elif g[i] != b[i]:
                return False
        return True
    if got.shape != expected.shape:
        return False
    if expected.dtype.kind == "f" or got.dtype.kind == "f":
        return bool(np.allclose(got.astype(np.float64), expected.astype(np.float64), rtol=1e-9, atol=1e-12, equal_nan=True))
    return bool(np.array_equal(got, expected))
