"""C14 - indexed updates apply every update exactly once and touch nothing else.

set_at / add_at / subtract_at / get_at on generated target / coordinate / update expressions with
many colliding coordinates; the expected tensor is computed by the extracted Spec (plan of
LoopSem.plan_update_at folded by UpdateSem.apply_acc / apply_set, about which Props/C14.v proves
"exactly once", "untouched elsewhere", "set leaves a competing value").  Plus the relation
get_at(set_at(t, c, u), c) == u for collision-free coordinates."""
import json

import numpy as np

from . import c01, common, gencalls, implrun


def gen_cases(rng, n):
    out = []
    for _ in range(n):
        fam = rng.choice(["update_at", "update_at", "update_at", "get_at"])
        out.append(gencalls.gen_call(rng, fam))
    return out


def _readback(c):
    """set_at then get_at with the same coordinates reads back the updates (where no two loop
    iterations address the same element)"""
    import einx
    res = []
    for b in ["numpy", "numpy.numpylike"]:
        r = implrun.run_call(c, b)
        if r[0] != "ok":
            continue
        coords_desc = c.desc.split(" -> ")[0].split(", ")
        tdesc, cdescs, udesc = coords_desc[0], coords_desc[1:-1], coords_desc[-1]
        odesc = c.desc.split(" -> ")[1]                    # the result is laid out as the output expression says
        desc = ", ".join([odesc] + cdescs) + " -> " + udesc
        try:
            back = einx.get_at(desc, r[1][0], *[a.copy() for a in c.arrays[1:-1]], backend=b, **c.size_kwargs())
        except Exception as e:  # noqa: BLE001
            cls = common.classify_exc(e)
            if cls.startswith("INTERNAL"):
                res.append(({"kind": "readback_exception", "exc": cls, "site": common.exc_site(e), "backend": b}, {"call": c.record(), "get_desc": desc}))
            continue
        res.append(("value", b, np.asarray(back).tolist(), desc))
        # the same with the coordinates counted from the end (numpy's wrap-around of a negative index) where that is what a
        # negative flat index means: one bracketed axis, outermost in the target and in the output
        marked = [l for l in gencalls.leaves(c.ins[0]) if l.marked]
        if len(marked) == 1 and marked[0].size > 0 and gencalls.leaves(c.ins[0])[0] is marked[0] and getattr(c, "out_perm", None) is None:
            import copy
            c2 = copy.copy(c)
            c2.arrays = [c.arrays[0]] + [np.asarray(a) - marked[0].size for a in c.arrays[1:-1]] + [c.arrays[-1]]
            r2 = implrun.run_call(c2, b)
            if r2[0] != "ok":
                continue
            try:
                back = einx.get_at(desc, r2[1][0], *[a.copy() for a in c2.arrays[1:-1]], backend=b, **c.size_kwargs())
            except Exception:  # noqa: BLE001
                continue
            res.append(("value", b, np.asarray(back).tolist(), desc + "  [coordinates counted from the end]"))
    return res


def run(ctx):
    n = 500 if ctx.tier == "quick" else 15000
    cases = gen_cases(ctx.rng, n)
    c01.run_cases(ctx, cases)
    # read-back relation on collision-free set_at calls whose update expression is a valid get_at output
    sets = [c for c in cases if c.op == "set_at"]
    plans = ctx.model.batch([common.sx(gencalls.plan_request(c)) for c in sets])
    todo = []
    for c, p in zip(sets, plans):
        if p == "none":
            continue
        tp = [int(r[0]) for r in p[1]]
        up = [int(r[1]) for r in p[1]]
        uleaves = {l.name for l in gencalls.leaves(c.ins[-1]) if not l.number}
        vec = {l.name for t in c.ins[:-1] for l in gencalls.leaves(t) if not l.marked and not l.number and l.size != 1}
        if len(set(tp)) == len(tp) and len(set(up)) == len(up) and vec <= uleaves:
            todo.append(c)
    rb = common.pmap(_readback, todo)
    n_rb = 0
    for c, rs in zip(todo, rb):
        for r in rs:
            if r[0] == "value":
                n_rb += 1
                if r[2] != np.asarray(c.arrays[-1]).tolist():
                    ctx.report({"kind": "readback_differs", "backend": r[1]},
                               {"call": c.record(), "get_desc": r[3], "inputs": [np.asarray(a).tolist() for a in c.arrays], "read_back": r[2]})
            else:
                ctx.report(r[0], r[1])
    ctx.coverage["evaluations"] += n_rb
    ctx.coverage["input_distribution"]["readback_relations"] = n_rb
    ctx.coverage["rule"] += "; plus get_at(set_at(...)) read-back on collision-free set_at calls"
    run_empty(ctx, cases)
    run_join(ctx)


def _empty_variant(c):
    """the same update with no iterations at all: an axis that only the coordinates / updates carry gets length 0 -> (call, expected) or None"""
    import copy
    tnames = {l.name for l in gencalls.leaves(c.ins[0])}
    cand = sorted({l.name for t in c.ins[1:-1] for l in gencalls.leaves(t) if not l.number and not l.marked and l.name not in tnames})
    top = lambda t, n: any(isinstance(d, gencalls.Ax) and d.name == n for d in t)           # noqa: E731
    cand = [n for n in cand if all(top(t, n) for t in c.ins[1:] if any(l.name == n for l in gencalls.leaves(t)))]
    if not cand:
        return None
    z = cand[0]
    c2 = copy.deepcopy(c)
    for t in c2.ins[1:]:
        for l in gencalls.leaves(t):
            if l.name == z:
                l.size = 0
    c2.arrays = [np.array(c.arrays[0])] + [np.zeros(gencalls.shape_of(t), dtype=np.asarray(a).dtype) for t, a in zip(c2.ins[1:], c.arrays[1:])]
    perm = getattr(c, "out_perm", None)
    expected = np.asarray(c.arrays[0]) if perm is None else np.transpose(np.asarray(c.arrays[0]), perm)
    return c2, expected, perm is not None


def _run_empty(item):
    c2, expected, permuted = item
    out = []
    for b in implrun.BACKENDS:
        r = implrun.run_call(c2, b)
        if r[0] == "exc" and r[1] == "OperationNotSupportedError":
            out.append(("ok", b))
        elif r[0] == "ok" and len(r[1]) == 1 and r[1][0].shape == expected.shape and np.array_equal(r[1][0], expected):
            out.append(("ok", b))
        else:
            out.append(("bad", b, {"kind": "update_without_iterations_wrong", "output_expression_reorders_target": permuted, "backend": b,
                                   "outcome": r[0] if r[0] != "exc" else r[1]},
                        {"call": c2.record(), "expected_shape": list(expected.shape), "got": [list(x.shape) for x in r[1]] if r[0] == "ok" else list(r[1:])}))
    return out


def run_empty(ctx, cases):
    """updates over an empty coordinate / update tensor: nothing is addressed, every element keeps its value, in the output's layout"""
    items = [x for x in (_empty_variant(c) for c in cases if c.family == "update_at") if x is not None]
    items = items[: 60 if ctx.tier == "quick" else 2000]
    n = 0
    for it, rs in zip(items, common.pmap(_run_empty, items)):
        for r in rs:
            n += 1
            if r[0] == "bad":
                ctx.report(r[2], r[3])
    ctx.coverage["evaluations"] += n
    ctx.coverage["input_distribution"]["updates_without_iterations"] = n
    ctx.coverage["rule"] += "; plus the same updates with an empty coordinate axis (no element addressed)"


def _real_join(lists):
    import einx._src.namedtensor.stage3 as s3
    from einx._src.adapter.decomposednamedtensor_from_classical import _join_exprs
    try:
        r = _join_exprs([s3.List.create([s3.Axis(n, v) for n, v in l]) for l in lists])
        return [a.name for a in r.nodes() if isinstance(a, s3.Axis)]
    except Exception as e:  # noqa: BLE001
        return "raises " + type(e).__name__


def run_join(ctx):
    """the regenerated _join_exprs kernel (Gen/GenJoin.v, about which Props/C14.v proves termination and 'every axis exactly once')
    against the function itself: the same order of axes on random lists of expressions"""
    rng = ctx.rng
    items = []
    for _ in range(300 if ctx.tier == "quick" else 20000):
        names = "abcdefg"[: rng.randint(1, 7)]
        sizes = {n: rng.choice([1, 2, 3, 3, 4]) for n in names}
        items.append([[(n, sizes[n]) for n in rng.sample(names, rng.randint(0, len(names)))] for _ in range(rng.randint(1, 4))])
    real = common.pmap(_real_join, items)
    model = ctx.model.batch([common.sx(["join_exprs", [[n for n, v in l if v != 1] for l in lists]]) for lists in items])
    bad = 0
    for lists, r, m in zip(items, real, model):
        if m != r and not (isinstance(m, list) and isinstance(r, list) and [str(x) for x in m] == r):
            bad += 1
            if bad <= 3:
                ctx.tie_breaks.append({"correspondence": "Gen/GenJoin.v gen_join vs _join_exprs", "expressions": lists, "model": m, "implementation": r})
    ctx.coverage["evaluations"] += len(items)
    ctx.coverage["input_distribution"]["joined_expression_orders"] = len(items)
    ctx.coverage["rule"] += "; plus the order of the joined intermediate expression (regenerated kernel vs _join_exprs)"


def replay(ctx, path):
    return c01.replay(ctx, path)
