"""C14 - indexed updates apply every update exactly once and touch nothing else.

set_at / add_at / subtract_at / get_at on generated target / coordinate / update expressions with
many colliding coordinates; the expected tensor is computed by the extracted Spec (plan of
LoopSem.plan_update_at folded by UpdateSem.apply_acc / apply_set, about which Props/C14.v proves
"exactly once", "untouched elsewhere", "set leaves a competing value").  Plus the relation
get_at(set_at(t, c, u), c) == u for collision-free coordinates."""
import json

import numpy as np

from . import c01, common, gencalls, implrun


def gen_cases(rng, n):
    out = []
    for _ in range(n):
        fam = rng.choice(["update_at", "update_at", "update_at", "get_at"])
        out.append(gencalls.gen_call(rng, fam))
    return out


def _readback(c):
    """set_at then get_at with the same coordinates reads back the updates (where no two loop
    iterations address the same element)"""
    import einx
    res = []
    for b in ["numpy", "numpy.numpylike"]:
        r = implrun.run_call(c, b)
        if r[0] != "ok":
            continue
        coords_desc = c.desc.split(" -> ")[0].split(", ")
        tdesc, cdescs, udesc = coords_desc[0], coords_desc[1:-1], coords_desc[-1]
        odesc = c.desc.split(" -> ")[1]                    # the result is laid out as the output expression says
        desc = ", ".join([odesc] + cdescs) + " -> " + udesc
        try:
            back = einx.get_at(desc, r[1][0], *[a.copy() for a in c.arrays[1:-1]], backend=b, **c.size_kwargs())
        except Exception as e:  # noqa: BLE001
            cls = common.classify_exc(e)
            if cls.startswith("INTERNAL"):
                res.append(({"kind": "readback_exception", "exc": cls, "site": common.exc_site(e), "backend": b}, {"call": c.record(), "get_desc": desc}))
            continue
        res.append(("value", b, np.asarray(back).tolist(), desc))
    return res


def run(ctx):
    n = 500 if ctx.tier == "quick" else 15000
    cases = gen_cases(ctx.rng, n)
    c01.run_cases(ctx, cases)
    # read-back relation on collision-free set_at calls whose update expression is a valid get_at output
    sets = [c for c in cases if c.op == "set_at"]
    plans = ctx.model.batch([common.sx(gencalls.plan_request(c)) for c in sets])
    todo = []
    for c, p in zip(sets, plans):
        if p == "none":
            continue
        tp = [int(r[0]) for r in p[1]]
        up = [int(r[1]) for r in p[1]]
        uleaves = {l.name for l in gencalls.leaves(c.ins[-1]) if not l.number}
        vec = {l.name for t in c.ins[:-1] for l in gencalls.leaves(t) if not l.marked and not l.number and l.size != 1}
        if len(set(tp)) == len(tp) and len(set(up)) == len(up) and vec <= uleaves:
            todo.append(c)
    rb = common.pmap(_readback, todo)
    n_rb = 0
    for c, rs in zip(todo, rb):
        for r in rs:
            if r[0] == "value":
                n_rb += 1
                if r[2] != np.asarray(c.arrays[-1]).tolist():
                    ctx.report({"kind": "readback_differs", "backend": r[1]},
                               {"call": c.record(), "get_desc": r[3], "inputs": [np.asarray(a).tolist() for a in c.arrays], "read_back": r[2]})
            else:
                ctx.report(r[0], r[1])
    ctx.coverage["evaluations"] += n_rb
    ctx.coverage["input_distribution"]["readback_relations"] = n_rb
    ctx.coverage["rule"] += "; plus get_at(set_at(...)) read-back on collision-free set_at calls"


def replay(ctx, path):
    return c01.replay(ctx, path)
