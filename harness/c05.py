"""C05 - graph optimisation never changes what an operation computes, and terminates.

(before, after) graph pairs - captured from real calls and built synthetically (chains of
reshape / transpose / broadcast_to / concatenate with no-ops, shared sub-graphs and several
consumers) - are (1) given as terms to the machine-checked equivalence checker of Model/Opt.v
(normal forms coincide => same entries for every input, Props/C05.v), (2) evaluated node by node
on real data (results and effects on the arguments must coincide), (3) compared on their ordered
effect events (in-place calls are never dropped or duplicated), and (4) the number of optimiser
passes is bounded by the term size."""
import itertools
import json

import numpy as np

from . import common, gencalls, implrun, irser
from .common import sx


def backend_opts():
    from einx._src.frontend.impl.numpy import _get_backend_kwargs
    return _get_backend_kwargs()["optimizations"]


def count_passes(graph, opts):
    import einx._src.tracer.optimizer.optimizer as om
    n = [0]
    orig = om.Optimizer.__init__

    def init(self, optimizations):
        n[0] += 1
        orig(self, optimizations)
    om.Optimizer.__init__ = init
    try:
        after = common.with_alarm(60, om.optimize, graph, opts)
    finally:
        om.Optimizer.__init__ = orig
    passes = Passes(n[0])
    # "reaches a fixed point": one more pass over what optimize() returned finds nothing left to rewrite
    if len(opts) > 0:
        again = om.Optimizer(opts)
        common.with_alarm(60, again._optimize, after)
        passes.fixed = not again.changed
    return after, passes


class Passes(int):
    fixed = True


def inplace_events(wire_events):
    return [e for e in wire_events if e[0] == "call" and isinstance(e[1], list) and e[1][0] == "attr"
            and "".join(chr(int(c)) for c in e[1][2][1:]) in ("put", "at")] + [e for e in wire_events if e[0] == "update"]


def check_pair(before, after, passes, args):
    """-> dict with wire terms, oracle verdicts"""
    item = {"passes": int(passes), "fixed_point": bool(getattr(passes, "fixed", True))}
    try:
        item["tb"] = irser.ser_term(before)
        item["ta"] = irser.ser_term(after) if hasattr(after, "inputs") else None
    except irser.Unsupported as e:
        item["unsupported"] = str(e)
    try:
        item["gb"] = irser.ser_graph(before)
        item["ga"] = irser.ser_graph(after)
    except irser.Unsupported as e:
        item["unsupported_graph"] = str(e)
    try:
        a1 = [np.array(a) for a in args]
        a2 = [np.array(a) for a in args]
        def ev(g, a):
            # a run-time check of the graph that fails (assert node) is an outcome of the graph, not of the oracle
            try:
                return ("ok", irser.direct_eval(g, a)[0])
            except AssertionError:
                return ("assertion_fails", None)
            except irser.Unsupported:
                raise
            except Exception as e:  # noqa: BLE001 - an ill-behaved user function of an adapter graph: the same failure on both sides is agreement
                return ("raises " + type(e).__name__, None)
        (k1, r1), (k2, r2) = ev(before, a1), ev(after, a2)
        if k1 != k2:
            ok = False
            item["detail"] = {"before": k1 if k1 != "ok" else _tolist(r1), "after": k2 if k2 != "ok" else _tolist(r2)}
        elif k1 != "ok":
            ok = True
        else:
            ok = _same(r1, r2) and all(np.array_equal(x, y) for x, y in zip(a1, a2))
            if not ok:
                item["detail"] = {"before": _tolist(r1), "after": _tolist(r2), "args_before": _tolist(a1), "args_after": _tolist(a2)}
        item["oracle"] = "ok" if ok else "differs"
    except irser.Unsupported as e:
        item["oracle"] = "unsupported: " + str(e)
    except BaseException as e:  # noqa: BLE001
        item["oracle"] = "raised " + type(e).__name__ + ": " + str(e)[:200]
    return item


def _tolist(r):
    if isinstance(r, (tuple, list)):
        return [_tolist(x) for x in r]
    return np.asarray(r).tolist()


def _same(a, b):
    if isinstance(a, (tuple, list)) or isinstance(b, (tuple, list)):
        return isinstance(a, (tuple, list)) and isinstance(b, (tuple, list)) and len(a) == len(b) and all(_same(x, y) for x, y in zip(a, b))
    a, b = np.asarray(a), np.asarray(b)
    return a.shape == b.shape and a.dtype == b.dtype and np.array_equal(a, b)


def _work_real(c):
    out = []
    for b in implrun.BACKENDS:
        import einx._src.tracer as tracer
        pairs = []
        orig = tracer.optimize

        def optimize(x, optimizations):
            after, n = count_passes(x, optimizations)
            pairs.append((x, after, n))
            return after
        tracer.optimize = optimize
        try:
            implrun.run_call(c, b)
        finally:
            tracer.optimize = orig
        for before, after, n in pairs:
            it = check_pair(before, after, n, c.arrays)
            it["what"] = {"call": c.record(), "backend": b}
            out.append(it)
    return out


ADAPT_FUNCS = {
    "good": lambda a, b: a + 2 * b,
    "contracts": lambda a, b: np.dot(a.ravel(), b.ravel()),            # wrong output shape
    "rowsum": lambda a, b: (a * b).sum(axis=-1),                       # wrong output shape (rank)
    "aslist": lambda a, b: (a + b).tolist(),                           # wrong output type
    "good_reduce": lambda x, axis: np.sum(x, axis=axis),
    "keeps_axis": lambda x, axis: np.sum(x, axis=axis, keepdims=True),  # wrong output shape
    "listed_reduce": lambda x, axis: np.sum(x, axis=axis).tolist(),   # wrong output type
}


def adapter_cases(rng, n):
    """user functions under einx.numpy.adapt_numpylike_elementwise / _reduce: the traced graph carries run-time checks (assert nodes)
    on what the function returns; operands that need no alignment make the graph a bare call plus its checks"""
    out = []
    for _ in range(n):
        a, b = rng.choice([2, 3]), rng.choice([2, 4])
        if rng.random() < 0.6:
            f = rng.choice(["good", "contracts", "rowsum", "aslist"])
            desc, shapes = rng.choice([("a, a", [(a,), (a,)]), ("a b, a b", [(a, b), (a, b)]), ("a b, b", [(a, b), (b,)]), ("a b, b a -> a b", [(a, b), (b, a)]),
                                       ("a, a -> a", [(a,), (a,)])])
            out.append(("elementwise", f, desc, shapes))
        else:
            f = rng.choice(["good_reduce", "keeps_axis", "listed_reduce"])
            desc, shapes = rng.choice([("a [b]", [(a, b)]), ("[a] b", [(a, b)]), ("a [b] -> a", [(a, b)]), ("[a]", [(a,)]), ("b [a] -> b", [(b, a)])])
            out.append(("reduce", f, desc, shapes))
    return out


def _work_adapt(item):
    import einx
    import einx._src.tracer as tracer
    kind, f, desc, shapes = item
    fn = (einx.numpy.adapt_numpylike_elementwise if kind == "elementwise" else einx.numpy.adapt_numpylike_reduce)(ADAPT_FUNCS[f])
    arrays = [np.arange(int(np.prod(sh)), dtype=np.float64).reshape(sh) + k for k, sh in enumerate(shapes)]
    pairs = []
    orig = tracer.optimize

    def optimize(x, optimizations):
        after, n = count_passes(x, optimizations)
        pairs.append((x, after, n))
        return after
    tracer.optimize = optimize
    try:
        try:
            fn(desc, *arrays)
        except BaseException:  # noqa: BLE001 - ill-behaved functions are expected to be rejected at run time
            pass
    finally:
        tracer.optimize = orig
    out = []
    for before, after, n in pairs:
        it = check_pair(before, after, n, arrays)
        it["what"] = {"adapter": kind, "function": f, "desc": desc, "shapes": [list(sh) for sh in shapes]}
        out.append(it)
    return out


def synthetic(rng, n):
    """raw chains built through the numpy signature (no trace-time skipping of no-ops)"""
    import einx._src.tracer as tracer
    np_ = tracer.signature.numpy()
    T = tracer.signature.classical.Tensor
    out = []
    for _ in range(n):
        rank = rng.randint(1, 4)
        shape = [rng.choice([1, 2, 3, 4]) for _ in range(rank)]
        x = T(None, shape=tuple(shape))
        pool = [x]
        steps = rng.randint(1, 6)
        desc = []
        for _ in range(steps):
            t = rng.choice(pool[-2:])
            sh = list(t.shape)
            r = rng.random()
            if r < 0.3:
                perm = list(range(len(sh)))
                if rng.random() < 0.7:
                    rng.shuffle(perm)
                t2 = np_.transpose(t, tuple(perm))
                desc.append(("transpose", perm))
            elif r < 0.6:
                total = int(np.prod(sh))
                cands = [s for s in ([total], sh, sh[::-1], [1] + sh, sh + [1], _split(total, rng)) if int(np.prod(s)) == total]
                s2 = rng.choice(cands)
                t2 = np_.reshape(t, tuple(s2))
                desc.append(("reshape", s2))
            elif r < 0.75:
                s2 = sh if rng.random() < 0.5 else [rng.choice([2, 3])] + sh
                t2 = np_.broadcast_to(t, tuple(s2))
                desc.append(("broadcast_to", s2))
            elif r < 0.8 and sh:
                # indexing with stepped / reversed / partial slices: a node no rewrite rule matches, rebuilt by the optimiser's generic case
                idx = tuple(rng.choice([slice(None), slice(None, None, -1), slice(None, None, -1)]) for _ in sh)   # what the signature supports (flip)
                t2 = tracer.signature.classical.getitem()(t, idx)
                desc.append(("getitem", [[i.start, i.stop, i.step] for i in idx]))
            elif r < 0.88:
                k = rng.choice([1, 1, 2])
                ax = rng.randrange(len(sh)) if sh else 0
                if not sh:
                    continue
                t2 = np_.concatenate([t] * k, axis=ax)
                desc.append(("concatenate", k, ax))
            else:
                other = rng.choice(pool)
                if tuple(other.shape) != tuple(t.shape):
                    continue
                t2 = np_.add(t, other)        # a second consumer of a shared sub-graph
                desc.append(("add",))
            pool.append(t2)
        g = tracer.Graph(inputs=[x], output=pool[-1], name="op")
        data = np.arange(int(np.prod(shape)), dtype=np.int64).reshape(shape) + 1
        out.append((g, [data], {"synthetic": desc, "shape": shape}))
    return out


def there_and_back(rng, n):
    """a chain of alternating transpose / reshape steps followed by its exact inverse: only the innermost pair is adjacent at
    first, each merged pair has to disappear before the next becomes adjacent - the number of passes grows with the length"""
    import einx._src.tracer as tracer
    np_ = tracer.signature.numpy()
    T = tracer.signature.classical.Tensor
    out = []
    for _ in range(n):
        rank = rng.randint(2, 3)
        shape = [rng.choice([2, 3, 4]) for _ in range(rank)]
        x = T(None, shape=tuple(shape))
        y, undo, desc = x, [], []
        for k in range(rng.randint(2, 14)):
            sh = list(y.shape)
            if k % 2 == 0:
                perm = list(range(len(sh)))
                while perm == sorted(perm):
                    rng.shuffle(perm)
                inv = [perm.index(i) for i in range(len(perm))]
                undo.append(("t", tuple(inv)))
                y = np_.transpose(y, tuple(perm))
                desc.append(("transpose", perm))
            else:
                s2 = _split(int(np.prod(sh)), rng)
                undo.append(("r", tuple(sh)))
                y = np_.reshape(y, tuple(s2))
                desc.append(("reshape", s2))
        for kind, arg in reversed(undo):
            y = np_.transpose(y, arg) if kind == "t" else np_.reshape(y, arg)
        y = np_.add(y, y)
        g = tracer.Graph(inputs=[x], output=y, name="op")
        data = np.arange(int(np.prod(shape)), dtype=np.int64).reshape(shape) + 1
        out.append((g, [data], {"there_and_back": desc, "shape": shape}))
    return out


def _split(total, rng):
    for d in (2, 3, 4):
        if total % d == 0 and total > d:
            return [d, total // d] if rng.random() < 0.5 else [total // d, d]
    return [total]


def wrapper_graphs(rng, n):
    """graphs that only pass their inputs on to one backend function - in order, swapped, repeated, or a subset - with inputs of equal
    or different shapes: the optimiser may replace such a graph by the bare function only when that changes nothing"""
    import einx._src.tracer as tracer
    np_ = tracer.signature.numpy()
    T = tracer.signature.classical.Tensor
    out = []
    for _ in range(n):
        k = rng.randint(2, 3)
        same = rng.random() < 0.7
        shapes = [(2, 3)] * k if same else [rng.choice([(2, 3), (3,), (1, 3)]) for _ in range(k)]
        ins = [T(None, shape=sh) for sh in shapes]
        how = rng.choice(["in_order", "swapped", "repeated", "rotated"])
        idx = {"in_order": [0, 1], "swapped": [1, 0], "repeated": [0, 0], "rotated": [k - 1, 0]}[how]
        f = rng.choice(["subtract", "add", "multiply", "maximum"])
        y = getattr(np_, f)(ins[idx[0]], ins[idx[1]])
        data = [np.arange(int(np.prod(sh)), dtype=np.int64).reshape(sh) * (j + 2) + j for j, sh in enumerate(shapes)]
        out.append((tracer.Graph(inputs=ins, output=y, name="op"), data, {"wrapper": how, "function": f, "shapes": [list(sh) for sh in shapes]}))
    return out


def unpacking_graphs(rng, n):
    """casts that unpack what a call returns - a tuple or list of one, two or three values - followed by ordinary operations: a cast is
    an identity only when it changes nothing about the structure"""
    import einx._src.tracer as tracer
    py = tracer.signature.python
    T = tracer.signature.classical.Tensor
    out = []
    for _ in range(n):
        x = py.Value(None)
        np_ = py.import_("numpy", as_="np")
        k = rng.choice([1, 1, 2, 3])
        how = rng.choice(["nonzero", "split_list", "split_tuple_cast"])
        if how == "nonzero":
            data = np.array([rng.randint(0, 2) for _ in range(6)], dtype=np.int64).reshape([(6,), (2, 3), (1, 2, 3)][k - 1])
            res = np_.nonzero(x)
            parts = tracer.cast(res, lambda origin, k=k: tuple(py.Value(origin) for _ in range(k)))
        else:
            data = np.arange(6, dtype=np.int64) + rng.randint(0, 4)
            res = np_.split(x, k)
            mk = (lambda origin, k=k: [py.Value(origin) for _ in range(k)]) if how == "split_list" else (lambda origin, k=k: tuple(py.Value(origin) for _ in range(k)))
            parts = tracer.cast(res, mk)
        y = parts[rng.randrange(k)]
        if rng.random() < 0.5:
            y = np_.negative(y)
        out.append((tracer.Graph(inputs=[x], output=y, name="op"), [data], {"unpacking": how, "values": k}))
    return out


def perm_pairs(max_rank):
    """every pair of permutations up to the rank bound (the quantifier named in the property)"""
    import einx._src.tracer as tracer
    np_ = tracer.signature.numpy()
    T = tracer.signature.classical.Tensor
    out = []
    for r in range(1, max_rank + 1):
        shape = [2, 3, 4, 5, 6][:r]
        data = np.arange(int(np.prod(shape)), dtype=np.int64).reshape(shape)
        for p1 in itertools.permutations(range(r)):
            for p2 in itertools.permutations(range(r)):
                x = T(None, shape=tuple(shape))
                y = np_.transpose(np_.transpose(x, p1), p2)
                out.append((tracer.Graph(inputs=[x], output=y, name="op"), [data], {"perm_pair": [list(p1), list(p2)]}))
    return out


def _work_syn(item):
    g, args, what = item
    after, n = count_passes(g, backend_opts())
    it = check_pair(g, after, n, args)
    it["what"] = what
    return [it]


def run(ctx):
    import einx  # noqa: F401
    quick = ctx.tier == "quick"
    cases = [gencalls.gen_call(ctx.rng) for _ in range(200 if quick else 5000)]
    real = common.pmap(_work_real, cases)
    syn_items = synthetic(ctx.rng, 600 if quick else 10000) + there_and_back(ctx.rng, 40 if quick else 1000) + perm_pairs(4 if quick else 5) + wrapper_graphs(ctx.rng, 60 if quick else 1500) + unpacking_graphs(ctx.rng, 60 if quick else 1500)
    syn = common.pmap(_work_syn, syn_items)
    adp = common.pmap(_work_adapt, adapter_cases(ctx.rng, 60 if quick else 1500))
    items = [it for its in real + syn + adp for it in its]
    lines, owners = [], []
    stats = {"pairs": len(items), "real": sum(len(x) for x in real), "synthetic": sum(len(x) for x in syn), "adapter_graphs": sum(len(x) for x in adp), "checked_by_model": 0,
             "unsupported_terms": 0, "oracle_runs": 0, "changed_by_optimizer": 0, "max_passes": 0}
    for it in items:
        stats["max_passes"] = max(stats["max_passes"], it["passes"])
        if it.get("oracle", "").startswith(("ok", "differs", "raised")):
            stats["oracle_runs"] += 1
        if it.get("oracle") == "differs" or it.get("oracle", "").startswith("raised"):
            ctx.report({"kind": "optimised_graph_computes_something_else", "oracle": it["oracle"][:40]},
                       {"what": it["what"], "detail": it.get("detail", it.get("oracle")), "before": it.get("gb"), "after": it.get("ga")})
        if not it["fixed_point"]:
            ctx.report({"kind": "optimised_graph_is_not_a_fixed_point"}, {"what": it["what"], "passes": it["passes"], "before": it.get("gb"), "after": it.get("ga")})
        if "tb" in it and it.get("ta") is not None and len(it["tb"]) == len(it["ta"]):
            for tb, ta in zip(it["tb"], it["ta"]):
                lines.append(sx(["opt_equiv", [tb, ta]]))
                owners.append(it)
        else:
            stats["unsupported_terms"] += 1
        if "gb" in it and "ga" in it:
            lines.append(sx(["ir_seval", it["gb"]]))
            owners.append(("evb", it))
            lines.append(sx(["ir_seval", it["ga"]]))
            owners.append(("eva", it))
    out = ctx.model.batch(lines)
    evs = {}
    for o, r in zip(owners, out):
        if isinstance(o, tuple):
            evs.setdefault(id(o[1]), {})[o[0]] = r
            continue
        it = o
        if r[0] != "equiv":
            ctx.tie_breaks.append({"correspondence": "optimiser term decoding", "model": r, "what": it["what"]})
            continue
        stats["checked_by_model"] += 1
        equiv, wfa, wfb, sa, sb, after_normal = r[1], r[2], r[3], int(r[4]), int(r[5]), r[6]
        if sa != sb:
            stats["changed_by_optimizer"] += 1
        ctx.distinct.add(json.dumps(it["tb"]))
        if wfa != "T":
            continue   # the traced graph itself is outside the model's well-formedness (not the optimiser's doing)
        if equiv != "T" or wfb != "T":
            ctx.report({"kind": "equivalence_checker_rejects", "equiv": equiv, "wf_after": wfb},
                       {"what": it["what"], "before_term": it["tb"], "after_term": it["ta"], "oracle": it.get("oracle")})
        it["tsize_sum"] = it.get("tsize_sum", 0) + sa
    for it in items:
        if "tsize_sum" in it and "gb" in it:
            casts = sum(1 for n in it["gb"][1] if isinstance(n[1], list) and n[1][0] == "cast")
            bound = it["tsize_sum"] + casts + 2      # every pass but the last fires a rule; every firing removes a node of the unfolded term or a cast
            if it["passes"] > bound:
                ctx.report({"kind": "more_passes_than_term_size"}, {"what": it["what"], "passes": it["passes"], "bound": bound})
        e = evs.get(id(it))
        if e and e.get("evb", [""])[0] == "ok" and e.get("eva", [""])[0] == "ok":
            if inplace_events(e["evb"][1]) != inplace_events(e["eva"][1]) and len(inplace_events(e["evb"][1])) != len(inplace_events(e["eva"][1])):
                ctx.report({"kind": "inplace_effects_changed"}, {"what": it["what"], "before": it.get("gb"), "after": it.get("ga")})
            nb, na = (sum(1 for x in e[k][1] if x[0] == "assert") for k in ("evb", "eva"))
            if nb != na:
                ctx.report({"kind": "runtime_checks_changed"}, {"what": it["what"], "asserts_before": nb, "asserts_after": na, "before": it.get("gb"), "after": it.get("ga")})
            stats["assert_events"] = stats.get("assert_events", 0) + nb
    for it in items[:2] + items[-2:]:
        ctx.sample({"what": it["what"], "passes": it["passes"], "oracle": it.get("oracle")})
    ctx.coverage.update({
        "evaluations": len(items), "programs": len(items),
        "rule": "(before, after) pairs: captured from generated calls on 3 backends; synthetic raw chains with no-ops, shared sub-graphs and "
                "several consumers; every pair of permutations up to the rank bound; distinct_nontrivial = distinct 'before' terms",
        "input_distribution": stats,
        "exhaustive_part": f"all pairs of permutations up to rank {4 if quick else 5}",
    })


def replay(ctx, path):
    data = json.load(open(path))
    print(json.dumps({k: data.get(k) for k in ("tags", "what", "detail", "oracle")}, indent=1)[:4000])
    print(f"VIOLATION property=C05 replay={path}")
    return 1
