"""C12 - the expression parser is total and stable under re-printing and extra spacing.

Correspondence: einx._src.namedtensor.stage1.parse_op vs the extracted Gallina parser
(Model/Parse.v) on (a) every token sequence up to a length bound, (b) random strings over
arbitrary characters, (c) the description corpus.  Direct oracles on the implementation (used
both as the search step and as an independent test): outcome class, position range, re-print /
re-parse, redundant-space insertion."""
import itertools
import json
import random

import numpy as np

from . import common
from .common import codes, sx, uncodes

TOKENS = ["a", "b", "1", "0", "(", ")", "[", "]", "...", "->", ",", "+", " ", "|"]


# ------------------------------------------------------------------ canonical trees
def canon_model(t, ren):
    """model wire tree -> canonical nested list"""
    k = t[0]
    if k == "axis":
        n = t[1]
        if n == "anon":
            name = ["anon"]
        elif n[0] == "n":
            name = ["n", uncodes(n[1])]
        else:
            name = ["u", ren.setdefault(("u", n[1]), len(ren))]
        val = int(t[2][0]) if t[2] else None
        return ["axis", name, val, int(t[3]), int(t[4])]
    if k in ("list", "cat", "args", "op"):
        return [k, [canon_model(c, ren) for c in t[1]], int(t[2]), int(t[3])]
    if k in ("flat", "br"):
        return [k, canon_model(t[1], ren), int(t[2]), int(t[3])]
    if k == "ell":
        inner = canon_model(t[1], ren)
        return ["ell", inner, int(t[2]), int(t[3]), ren.setdefault(("e", t[4], t[5]), len(ren))]
    raise ValueError(k)


def canon_impl(x, ren):
    from einx._src.namedtensor import stage1 as s1
    if isinstance(x, s1.Axis):
        if x.name == s1.Ellipsis.anonymous_variable_name:
            name = ["anon"]
        elif x.name.startswith("unnamed."):
            name = ["u", ren.setdefault(("u", x.name), len(ren))]
        else:
            name = ["n", x.name]
        return ["axis", name, None if x.value is None else int(x.value), x.begin_pos, x.end_pos]
    for cls, k in ((s1.List, "list"), (s1.ConcatenatedAxis, "cat"), (s1.Args, "args"), (s1.Op, "op")):
        if isinstance(x, cls):
            return [k, [canon_impl(c, ren) for c in x.children], x.begin_pos, x.end_pos]
    for cls, k in ((s1.FlattenedAxis, "flat"), (s1.Brackets, "br")):
        if isinstance(x, cls):
            return [k, canon_impl(x.inner, ren), x.begin_pos, x.end_pos]
    if isinstance(x, s1.Ellipsis):
        inner = canon_impl(x.inner, ren)
        return ["ell", inner, x.begin_pos, x.end_pos, ren.setdefault(("e", x.ellipsis_id), len(ren))]
    raise ValueError(type(x))


def strip_pos(t):
    k = t[0]
    # what `==` on stage1 trees compares; unnamed axes by value only, ellipsis ids ignored
    if k == "axis":
        return [k, t[1] if t[1][0] != "u" else ["u"], t[2]]
    if k in ("list", "cat", "args", "op"):
        return [k, [strip_pos(c) for c in t[1]]]
    if k == "flat" and t[1][0] == "cat":
        # parse() itself returns "(x + y)" for "((x + y))"; move_up can leave Flat(Cat) behind, which
        # prints as "((x + y))" - the same 1-dimensional axis.  Compared modulo this normalisation.
        return strip_pos(t[1])
    if k in ("flat", "br"):
        return [k, strip_pos(t[1])]
    return [k, strip_pos(t[1])]


# ------------------------------------------------------------------ implementation side
def impl_parse(text, fn="parse_op"):
    """-> dict(kind=ok|err|internal|timeout, ...) ; never raises"""
    from einx._src.namedtensor import stage1 as s1
    f = getattr(s1, fn)
    try:
        x = common.with_alarm(20, f, text)
    except BaseException as e:  # noqa: BLE001
        cls = common.classify_exc(e)
        if cls == "SyntaxError":
            return {"kind": "err", "pos": list(e.pos), "bracket_msg": "inconsistent bracket" in str(e),
                    "quotes_input": ('"' + text + '"') in str(e)}
        if cls == "TIMEOUT":
            return {"kind": "timeout"}
        return {"kind": "internal", "exc": cls, "site": common.exc_site(e)}
    try:
        tree = canon_impl(x, {})
        printed = str(x)
    except BaseException as e:  # noqa: BLE001
        return {"kind": "internal", "exc": common.classify_exc(e), "site": "canon:" + common.exc_site(e)}
    return {"kind": "ok", "tree": tree, "printed": printed}


def impl_oracles(text):
    """direct checks of the property on the implementation; returns list of (tag dict, detail)"""
    out = []
    r = impl_parse(text)
    if r["kind"] == "internal":
        out.append(({"kind": "internal", "exc": r["exc"], "site": r["site"]}, {"input": text, "observed": r}))
        return r, out
    if r["kind"] == "timeout":
        out.append(({"kind": "timeout"}, {"input": text}))
        return r, out
    if r["kind"] == "err":
        if any(p < 0 or p >= len(text) for p in r["pos"]):
            out.append(({"kind": "pos_out_of_range"}, {"input": text, "observed": r}))
        if not r["quotes_input"]:
            # the message shows the expression it complains about: that is the caller's string, character for character
            out.append(({"kind": "error_does_not_quote_the_input", "ascii": text.isascii() and text.isprintable()}, {"input": text, "observed": r}))
        return r, out
    # re-print / re-parse
    p = r["printed"]
    r2 = impl_parse(p)
    if r2["kind"] != "ok":
        out.append(({"kind": "reprint_fails", "printed_has_brace": "{" in p, "printed_nested_dots": "......" in p and "{" not in p, "second": r2["kind"]},
                    {"input": text, "printed": p, "second": r2}))
    elif strip_pos(r2["tree"]) != strip_pos(r["tree"]):
        out.append(({"kind": "reprint_differs"}, {"input": text, "printed": p, "first": r["tree"], "second": r2["tree"]}))
    return r, out


def redundant_space_variant(text, rng):
    """insert spaces only where the property calls them redundant"""
    out = []
    n = len(text)
    i = 0
    toks = []
    lits = ["->", "...", ",", "+", " ", "(", ")", "[", "]"]
    while i < n:
        for l in lits:
            if text.startswith(l, i):
                toks.append(l)
                i += len(l)
                break
        else:
            j = i
            while j < n and not any(text.startswith(l, j) for l in lits):
                j += 1
            toks.append(text[i:j])
            i = j
    res = []
    for k, t in enumerate(toks):
        prev = toks[k - 1] if k > 0 else None
        # a space before t is redundant if: start, prev is space/->/,/+/opening, or t is space/->/,/+/closing
        red = prev is None or prev in (" ", "->", ",", "+", "(", "[") or t in (" ", "->", ",", "+", ")", "]")
        if red and rng.random() < 0.5:
            res.append(" " * rng.randint(1, 2))
        res.append(t)
    if rng.random() < 0.5:
        res.append(" ")
    return "".join(res)


def impl_space_oracle(args):
    text, variant = args
    a = impl_parse(text)
    b = impl_parse(variant)
    if a["kind"] in ("internal", "timeout") or b["kind"] in ("internal", "timeout"):
        return None  # reported by impl_oracles
    if a["kind"] != b["kind"]:
        return ({"kind": "space_sensitive_outcome"}, {"input": text, "variant": variant, "first": a, "second": b})
    if a["kind"] == "ok" and strip_pos(a["tree"]) != strip_pos(b["tree"]):
        return ({"kind": "space_sensitive_tree"}, {"input": text, "variant": variant, "first": a, "second": b})
    return None


def _work(text):
    return impl_oracles(text)


# ------------------------------------------------------------------ comparison
def compare(text, ri, rm):
    """implementation result vs model wire result -> None | (tags, payload)"""
    mk = rm[0]
    if mk == "BADCASE" or mk == "DRIVERFAIL":
        return ({"kind": "model_bad_case"}, {"input": text, "model": rm})
    if mk == "internal":
        if ri["kind"] == "internal":
            return None  # already reported by the oracle with a concrete input
        return ({"kind": "corr_model_internal"}, {"input": text, "model": rm, "impl": ri})
    if mk == "err":
        if ri["kind"] != "err":
            return ({"kind": "corr_outcome", "model": "err", "impl": ri["kind"]}, {"input": text, "model": rm, "impl": ri})
        mp = sorted(set(int(p) for p in rm[2]))
        ip = sorted(set(ri["pos"]))
        if mp != ip and not (rm[1] == "397" and ri.get("bracket_msg")):
            return ({"kind": "corr_err_pos"}, {"input": text, "model_pos": mp, "impl_pos": ip, "site": rm[1]})
        return None
    # ok
    if ri["kind"] != "ok":
        if ri["kind"] == "internal":
            return None
        return ({"kind": "corr_outcome", "model": "ok", "impl": ri["kind"]}, {"input": text, "model": rm, "impl": ri})
    mt = canon_model(rm[1], {})
    if mt != ri["tree"]:
        return ({"kind": "corr_tree"}, {"input": text, "model_tree": mt, "impl_tree": ri["tree"]})
    if uncodes(rm[2]) != ri["printed"]:
        return ({"kind": "corr_print"}, {"input": text, "model_print": uncodes(rm[2]), "impl_print": ri["printed"]})
    return None


def corpus_strings():
    """description-looking strings from README, docs and tests of /repo"""
    import glob
    import re
    out = []
    files = [common.REPO + "/README.md"] + glob.glob(common.REPO + "/docs/source/**/*.rst", recursive=True) \
        + glob.glob(common.REPO + "/test/*.py")
    for f in files:
        try:
            s = open(f).read()
        except OSError:
            continue
        for m in re.finditer(r'einx\.[a-z_.]+\(\s*"([^"\n]{1,120})"', s):
            out.append(m.group(1))
        for m in re.finditer(r'\(\s*"([^"\n]*(?:->|\[)[^"\n]*)"', s):
            out.append(m.group(1))
    return sorted(set(out))


def random_strings(rng, n):
    alpha = ["a", "b", "c", "ab", "x1", "_", "1", "2", "10", "007", "(", ")", "[", "]", "...", "->", ",", "+", " ", " ",
             "|", ".", "..", "-", ">", "{", "}", "²", "٣", "é", "\t", "\n", "A_b", "1a", "a.b", "!", "*", "=", "'", " "]
    out = []
    for _ in range(n):
        k = rng.randint(0, 12)
        out.append("".join(rng.choice(alpha) for _ in range(k)))
    # long inputs (termination / recursion depth)
    out.append("a " * 3000)
    out.append("(" * 200 + "a" + ")" * 200)
    out.append("[" * 50 + "a" + "]" * 50 + " -> " + "b " * 500)
    out.append(", ".join(["a b"] * 400))
    return out


def structured_strings(rng, n):
    """mostly-valid descriptions from a small grammar"""
    names = ["a", "b", "c", "d", "e"]

    def axis(d):
        r = rng.random()
        if r < 0.45 or d > 3:
            return rng.choice(names)
        if r < 0.55:
            return str(rng.choice([1, 2, 3, 10]))
        if r < 0.7:
            return "(" + seq(d + 1) + ")"
        if r < 0.8:
            return "[" + seq(d + 1) + "]"
        if r < 0.87:
            return "(" + " + ".join(rng.choice(names + ["1", "(a b)"]) for _ in range(rng.randint(2, 3))) + ")"
        if r < 0.95:
            return rng.choice(names + ["", "(a b)", "[c]", "(a + b)", "[" + seq(d + 1) + "]", "(" + seq(d + 1) + ")"]) + "..."
        if r < 0.975:
            return "(" + seq(d + 1) + " -> " + seq(d + 1) + ")"
        # nested commas (possibly at several levels of one expression)
        return "(" + ", ".join(seq(d + 1) for _ in range(rng.randint(2, 3))) + ")"

    def seq(d):
        return " ".join(axis(d) for _ in range(rng.randint(0, 3)))

    out = []
    for _ in range(n):
        ins = ", ".join(seq(0) for _ in range(rng.randint(1, 3)))
        if rng.random() < 0.7:
            s = ins + " -> " + ", ".join(seq(0) for _ in range(rng.randint(1, 2)))
        else:
            s = ins
        out.append(s)
    return out


def load_corpus_cases():
    import glob
    import os
    out = []
    for f in sorted(glob.glob(os.path.join(common.VERIF, "corpus", "C12", "*.json"))):
        out.extend(json.load(open(f)))
    return out


def _op_level_quote(text):
    """an operation handed a description the parser rejects: its SyntaxError shows the caller's string, character for character"""
    import einx
    try:
        common.with_alarm(20, einx.id, text, np.zeros((2,)))
    except BaseException as e:  # noqa: BLE001
        if common.classify_exc(e) == "SyntaxError" and getattr(e, "pos", None) is not None:
            if ('"' + text + '"') not in str(e) and "%EXPR%" not in str(e) and len(e.pos) > 0:
                return ({"kind": "operation_error_does_not_quote_the_input", "ascii": text.isascii() and text.isprintable()},
                        {"input": text, "message": str(e)[:400]})
    return None


def _solve_level_quote(text):
    """solve_* take one side of an operation: handed a text with an arrow (spaced or not) they complain about the caller's string"""
    import einx
    try:
        common.with_alarm(20, einx.solve_axes, text, np.zeros((2,)))
    except BaseException as e:  # noqa: BLE001
        if common.classify_exc(e) == "SyntaxError" and ('Expression: "' + text + '"') not in str(e):
            return ({"kind": "solve_error_does_not_quote_the_input", "ascii": text.isascii() and text.isprintable()}, {"input": text, "message": str(e)[:400]})
    return None


def run(ctx):
    rng = ctx.rng
    maxlen = 4 if ctx.tier == "quick" else 5
    exhaustive = ["".join(t) for k in range(0, maxlen + 1) for t in itertools.product(TOKENS, repeat=k)]
    corpus = load_corpus_cases() + corpus_strings()
    rnd = random_strings(rng, 1500 if ctx.tier == "quick" else 30000)
    struct = structured_strings(rng, 1500 if ctx.tier == "quick" else 30000)
    inputs = corpus + struct + rnd + exhaustive
    # implementation: oracles
    import einx  # noqa: F401  (imported before forking workers)
    res = common.pmap(_work, inputs)
    # model
    mres = ctx.model.batch([sx(["parse_op", codes(t)]) for t in inputs])
    kinds = {}
    n_corr = 0
    for text, (ri, viol), rm in zip(inputs, res, mres):
        kinds[ri["kind"]] = kinds.get(ri["kind"], 0) + 1
        for tags, payload in viol:
            ctx.report(tags, payload)
        d = compare(text, ri, rm)
        if d is not None:
            n_corr += 1
            tags, payload = d
            # a correspondence disagreement alone is a broken tie; it becomes a concrete violation
            # only through an oracle above.  Record it (with the input) as a tie break.
            if not viol:
                ctx.tie_breaks.append({"correspondence": "parse_op model vs implementation", "tags": tags, **payload})
        if ri["kind"] == "ok":
            ctx.distinct.add(json.dumps(strip_pos(ri["tree"])))
    ctx.tie_breaks = ctx.tie_breaks[:20]
    # spacing oracle on the implementation
    base = [t for t in corpus + struct + exhaustive[: 20000] if t]
    pairs = [(t, redundant_space_variant(t, rng)) for t in base]
    sres = common.pmap(impl_space_oracle, pairs)
    for r in sres:
        if r is not None:
            ctx.report(*r)
    # the same through an operation: rejected strings, also with leading / trailing / doubled blanks
    bad = [t for t, (ri, _) in zip(inputs, res) if ri["kind"] == "err" and "\n" not in t and '"' not in t][: 3000]
    rng.shuffle(bad)
    bad = bad[: 150 if ctx.tier == "quick" else 3000]
    bad = bad + [" " + t for t in bad[:50]] + [t + " " for t in bad[50:100]] + [t.replace(" ", "  ", 1) for t in bad[100:150] if " " in t]
    for r in common.pmap(_op_level_quote, bad):
        if r is not None:
            ctx.report(*r)
    arrows = [t for t in inputs if "->" in t and "\n" not in t and '"' not in t and t.count("(") == t.count(")") and t.count("[") == t.count("]")]
    rng.shuffle(arrows)
    arrows = arrows[: 150 if ctx.tier == "quick" else 3000]
    arrows = arrows + [t.replace(" -> ", "->") for t in arrows[:60]] + [t.replace("->", " ->") for t in arrows[60:90]]
    for r in common.pmap(_solve_level_quote, arrows):
        if r is not None:
            ctx.report(*r)
    for t in corpus[:3] + struct[:3]:
        ctx.sample({"input": t})
    ctx.coverage.update({
        "evaluations": len(inputs) + len(pairs),
        "exhaustive": False,
        "exhaustive_part": f"all {len(exhaustive)} strings of <= {maxlen} tokens over {TOKENS}",
        "rule": "inputs = corpus strings + grammar-generated descriptions + random strings over 40 fragments (incl. non-ASCII "
                "digits, tabs, braces) + every token sequence up to the bound; distinct_nontrivial = number of distinct "
                "position-erased trees among successfully parsed inputs",
        "input_distribution": {"corpus": len(corpus), "structured": len(struct), "random": len(rnd), "exhaustive": len(exhaustive),
                               "space_variants": len(pairs), "impl_outcomes": kinds, "operation_level_error_quotes": len(bad)},
        "correspondence_disagreements": n_corr,
    })


def replay(ctx, path):
    data = json.load(open(path))
    text = data.get("input")
    if text is None:
        print("replay file names no input (no-failing-input-found):", json.dumps(data.get("broken_obligations"))[:2000])
        return 1
    import einx  # noqa: F401
    ri, viol = impl_oracles(text)
    rm = ctx.model.batch([sx(["parse_op", codes(text)])])[0]
    print("input:", repr(text))
    print("implementation:", ri)
    print("model:", rm)
    d = compare(text, ri, rm)
    if "variant" in data:
        v = impl_space_oracle((text, data["variant"]))
        if v:
            viol.append(v)
    for tags, payload in viol:
        print("VIOLATION-DETAIL", tags)
    if viol or d:
        print(f"VIOLATION property=C12 replay={path}")
        return 1
    print("no violation on this input")
    return 0
