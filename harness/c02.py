"""C02 - axis and rank solving is sound, unambiguous and exact.

Generated problems (expression lists with flatten / concat / numbers / one ellipsis, shapes known
or None, any subset of the keyword sizes, consistent / contradicted / non-dividing variants,
lengths up to 2**40) are given to einx.solve_shapes / solve_axes / matches and, as equation
systems over positive integers, to the extracted reference solver (Spec/Solve.v, proved sound in
Props/C02.v).  Envelope: reference says Det -> einx must report exactly those values; reference
says Contra -> einx must fail with RankError/AxisSizeError (matches: False); otherwise whatever
einx reports must satisfy every constraint (re-checked by the reference solver) and must not be
one of two exhibited solutions that differ on a reported quantity."""
import itertools
import json
import types

import numpy as np

from . import common, gencalls
from .common import sx
from .gencalls import Ax, Cat, Fl, leaves

BIG = [2 ** 16, 2 ** 20 + 3, 2 ** 31, 2 ** 31 + 5, 2 ** 33, 2 ** 40]


def gen_flat_probe(rng):
    """a flattened axis whose other factors are known (number, keyword or another tensor): the remaining factor is forced"""
    g = gencalls.G(rng)
    x = Ax("a", rng.choice([1, 2, 3, 5]))
    others = []
    kw = {}
    tensors = []
    for nm in ["b", "c"][: rng.randint(1, 2)]:
        r = rng.random()
        if r < 0.4:
            g.fresh += 1
            others.append(Ax(f"unit{g.fresh}", rng.choice([2, 3, 4]), number=True))
        elif r < 0.7:
            o = Ax(nm, rng.choice([2, 3, 5]))
            others.append(o)
            kw[nm] = o.size
        else:
            o = Ax(nm, rng.choice([2, 3, 5]))
            others.append(o)
            tensors.append([o.copy()] if rng.random() < 0.5 else [Ax("d", 2), o.copy()])
    fl = Fl(g.perm([x] + others))
    first = [fl] + ([Ax("d", 2)] if rng.random() < 0.3 else [])
    tensors = [first] + tensors
    used = {}
    for t in tensors:
        for l in leaves(t):
            if not l.number:
                used[l.name] = l.size
    return {"tensors": tensors, "known": [True] * len(tensors), "kw": kw, "variant": rng.choice(["consistent", "nondividing", "nondividing"]),
            "ell": None, "axes": used}


def gen_problem(rng):
    if rng.random() < 0.15:
        return gen_flat_probe(rng)
    g = gencalls.G(rng)
    big = rng.random() < 0.2
    sizes = [1, 2, 3, 4, 5, 7, 12] + (BIG if big else [])
    axes = []
    budget = 2 ** 61
    for nm in g.perm(gencalls.NAMES)[: rng.randint(1, 5)]:
        sz = rng.choice(sizes)
        if sz > budget:
            sz = rng.choice([2, 3, 5])
        budget //= sz          # every dimension (product of lengths) stays below 2**62: a real tensor dimension fits an int64
        axes.append(Ax(nm, sz))
    n = rng.randint(1, 3)
    tensors = []
    for _ in range(n):
        sub = g.perm([a for a in axes if rng.random() < 0.7] or axes[:1])
        dims = g.arrange(sub, units=0.05, flat=0.35)
        # numbers (fixed-size axes) and concatenations
        if rng.random() < 0.3:
            v = rng.choice([2, 3, 4])
            g.fresh += 1
            dims.insert(rng.randint(0, len(dims)), Ax(f"unit{g.fresh}", v, number=True))
        if rng.random() < 0.25 and axes:
            extra = g.pick_axes(1, exclude={a.name for a in axes}, sizes=[1, 2, 3, 5])[0]
            axes.append(extra)
            k = rng.randint(0, len(dims))
            part = rng.choice(axes)
            dims.insert(k, Cat([part.copy(), extra.copy()] if rng.random() < 0.5 else [extra.copy(), Fl([part.copy(), Ax("unit%d" % (g.fresh + 1), 2, number=True)])]))
            g.fresh += 1
        tensors.append(dims)
    used = {}
    for t in tensors:
        for l in leaves(t):
            if not l.number:
                used[l.name] = l.size
    # ellipsis: one named ellipsis axis "e..." expanded to k axes in some tensors
    ell = None
    if rng.random() < 0.25:
        k = rng.randint(0, 3)
        ell = {"name": "E", "sizes": [rng.choice([1, 2, 3, 5]) for _ in range(k)], "where": {}}
        for ti in range(len(tensors)):
            if rng.random() < 0.6:
                ell["where"][ti] = rng.randint(0, len(tensors[ti]))
        if not ell["where"]:
            ell = None
    known = [rng.random() < 0.75 for _ in tensors]
    if not any(known):
        known[0] = True
    kw = {nm: sz for nm, sz in used.items() if rng.random() < 0.5}
    variant = rng.choice(["consistent"] * 5 + ["contradict_kw", "contradict_dim", "nondividing"])
    return {"tensors": tensors, "known": known, "kw": kw, "variant": variant, "ell": ell, "axes": used}


def description(p):
    parts = []
    for ti, t in enumerate(p["tensors"]):
        toks = [gencalls.p_dim(d) for d in t]
        if p["ell"] and ti in p["ell"]["where"]:
            toks.insert(p["ell"]["where"][ti], "E...")
        parts.append(" ".join(toks))
    return ", ".join(parts)


def true_shape(p, ti):
    sh = [gencalls.dsize(d) for d in p["tensors"][ti]]
    if p["ell"] and ti in p["ell"]["where"]:
        k = p["ell"]["where"][ti]
        sh[k:k] = p["ell"]["sizes"]
    return tuple(sh)


def problem_instance(p, rng):
    """-> (description, shapes (None for unknown), kwargs)"""
    desc = description(p)
    shapes = [true_shape(p, ti) if p["known"][ti] else None for ti in range(len(p["tensors"]))]
    kw = dict(p["kw"])
    v = p["variant"]
    if v == "contradict_kw" and kw:
        k = rng.choice(sorted(kw))
        kw[k] = kw[k] + rng.choice([1, 2, 7])
    elif v == "contradict_dim":
        cands = [i for i, s in enumerate(shapes) if s]
        if cands:
            i = rng.choice(cands)
            j = rng.randrange(len(shapes[i]))
            s = list(shapes[i])
            s[j] = s[j] + rng.choice([1, 2, 3])
            shapes[i] = tuple(s)
    elif v == "nondividing":
        cands = [(i, j) for i, s in enumerate(shapes) if s for j in range(len(s)) if s[j] > 2]
        if cands:
            i, j = rng.choice(cands)
            s = list(shapes[i])
            s[j] = s[j] + 1
            shapes[i] = tuple(s)
    return desc, shapes, kw


class VarIds:
    def __init__(self):
        self.ids = {}

    def __call__(self, name):
        return self.ids.setdefault(name, len(self.ids))


def cexp(d, vid):
    if isinstance(d, Ax):
        return ["n", d.size] if d.number else ["v", vid(d.name)]
    if isinstance(d, Fl):
        return ["prod", [cexp(c, vid) for c in d.cs]]
    return ["sum", [cexp(c, vid) for c in d.cs]]


def equations(p, shapes, kw, vid):
    """equation system of the instance; the ellipsis count is known from a tensor of known rank, else the system is not built"""
    eqs = []
    ell = p["ell"]
    ell_count = None
    if ell:
        for ti, s in enumerate(shapes):
            if s is not None and ti in ell["where"]:
                c = len(s) - len(p["tensors"][ti])
                if c < 0:
                    return None, "rank"
                if ell_count is not None and ell_count != c:
                    return None, "rank"
                ell_count = c
        if ell_count is None:
            return None, "free_rank"
    for ti, s in enumerate(shapes):
        if s is None:
            continue
        dims = [cexp(d, vid) for d in p["tensors"][ti]]
        if ell and ti in ell["where"]:
            k = ell["where"][ti]
            dims[k:k] = [["v", vid(f"E.{i}")] for i in range(ell_count)]
        if len(dims) != len(s):
            return None, "rank"
        for e, v in zip(dims, s):
            eqs.append([e, int(v)])
    for k, v in kw.items():
        eqs.append([["v", vid(k)], int(v)])
    return eqs, ell_count


def impl_solve(args):
    desc, shapes, kw = args
    import einx
    tensors = [None if s is None else types.SimpleNamespace(shape=s) for s in shapes]
    out = {}
    for fn in ("solve_shapes", "solve_axes", "matches"):
        try:
            r = common.with_alarm(40, getattr(einx, fn), desc, *tensors, **kw)
            if fn == "solve_shapes":
                r = [[int(x) for x in s] for s in r]
            elif fn == "solve_axes":
                r = {k: (np.asarray(v).astype(object).tolist()) for k, v in r.items()}
            out[fn] = ["ok", r]
        except BaseException as e:  # noqa: BLE001
            out[fn] = ["exc", common.classify_exc(e), common.exc_site(e), str(e)[:160]]
    return out


def expected_from(p, sigma, names, ell_count):
    """shapes and axes that follow from a full assignment (dict var id -> value)"""
    inv = {v: k for k, v in names.ids.items()}
    val = {inv[i]: v for i, v in sigma.items()}

    def ev(d):
        if isinstance(d, Ax):
            return d.size if d.number else val.get(d.name)
        vs = [ev(c) for c in d.cs]
        if any(v is None for v in vs):
            return None
        return int(np.prod(vs, dtype=object)) if isinstance(d, Fl) else sum(vs)

    shapes = []
    for ti, t in enumerate(p["tensors"]):
        sh = [ev(d) for d in t]
        if p["ell"] and ti in p["ell"]["where"]:
            k = p["ell"]["where"][ti]
            sh[k:k] = [val.get(f"E.{i}") for i in range(ell_count or 0)]
        shapes.append(sh)
    axes = {k: v for k, v in val.items() if not k.startswith("E.")}
    if p["ell"] and any(ti in p["ell"]["where"] for ti in range(len(p["tensors"]))):
        axes["E"] = [val.get(f"E.{i}") for i in range(ell_count or 0)]
    return shapes, axes


def second_solution(eqs, nvars, sigma_partial, limit=4000):
    """brute-force search for two solutions (values 1..9 for the open variables)"""
    def ev(e, s):
        if e[0] == "v":
            return s[e[1]]
        if e[0] == "n":
            return e[1]
        vs = [ev(c, s) for c in e[1]]
        return int(np.prod(vs, dtype=object)) if e[0] == "prod" else sum(vs)
    free = [x for x in range(nvars) if x not in sigma_partial]
    if not free or len(free) > 3:
        return None
    sols = []
    for combo in itertools.product(range(1, 10), repeat=len(free)):
        s = dict(sigma_partial)
        s.update(zip(free, combo))
        if all(ev(e, s) == v for e, v in eqs):
            sols.append(s)
            if len(sols) >= 2:
                return sols
    return None


def run(ctx):
    import einx  # noqa: F401
    n = 700 if ctx.tier == "quick" else 30000
    probs = [gen_problem(ctx.rng) for _ in range(n)]
    insts = [problem_instance(p, ctx.rng) for p in probs]
    impl = common.pmap(impl_solve, insts)
    names, systems, lines, idx = [], [], [], []
    for k, (p, (desc, shapes, kw)) in enumerate(zip(probs, insts)):
        vid = VarIds()
        eqs, info = equations(p, shapes, kw, vid)
        names.append(vid)
        systems.append((eqs, info))
        if eqs is not None:
            idx.append(k)
            lines.append(sx(["solve_propagate", eqs]))
    outs = dict(zip(idx, ctx.model.batch(lines)))
    stats = {"det": 0, "contra": 0, "unknown": 0, "rank_contradiction": 0, "free_rank": 0, "impl_ok": 0, "impl_fail": 0, "big_lengths": 0}
    recheck, recheck_owner = [], []
    for k, (p, inst, r) in enumerate(zip(probs, insts, impl)):
        desc, shapes, kw = inst
        eqs, info = systems[k]
        rec = {"description": desc, "shapes": shapes, "kwargs": kw, "variant": p["variant"]}
        ctx.distinct.add(desc + "|" + json.dumps(shapes) + "|" + json.dumps(kw, sort_keys=True))
        if any(v >= 2 ** 31 for s in shapes if s for v in s) or any(v >= 2 ** 31 for v in kw.values()):
            stats["big_lengths"] += 1
        ss, sa, sm = r["solve_shapes"], r["solve_axes"], r["matches"]
        for fn, res in r.items():
            if res[0] == "exc" and res[1] not in ("RankError", "AxisSizeError"):
                ctx.report({"kind": "unexpected_exception", "fn": fn, "exc": res[1], "site": res[2]}, {**rec, "message": res[3]})
        ok = ss[0] == "ok"
        stats["impl_ok" if ok else "impl_fail"] += 1
        if (sm[0] == "ok" and bool(sm[1]) != ok):
            ctx.report({"kind": "matches_disagrees_with_solve_shapes"}, {**rec, "matches": sm, "solve_shapes": ss})
        if eqs is None:
            if info == "rank":
                stats["rank_contradiction"] += 1
                if ok:
                    ctx.report({"kind": "accepts_rank_contradiction"}, {**rec, "reported": ss[1]})
            else:
                stats["free_rank"] += 1
            continue
        m = outs[k]
        if m == "contra":
            stats["contra"] += 1
            if ok:
                ctx.report({"kind": "accepts_unsatisfiable_system", "variant": p["variant"]}, {**rec, "reported": ss[1], "equations": eqs})
            continue
        sigma = {int(x): int(v) for x, v in m[1]}
        if m[0] == "det":
            stats["det"] += 1
            exp_shapes, exp_axes = expected_from(p, sigma, names[k], info)
            if any(v is None for sh in exp_shapes for v in sh):
                # an axis occurs only in tensors of unknown shape and has no keyword: it is free, the reported
                # shapes differ between solutions, so the call has to fail
                stats["free_axis"] = stats.get("free_axis", 0) + 1
                if ok:
                    ctx.report({"kind": "accepts_underdetermined_system"}, {**rec, "reported": ss[1]})
                continue
            if not ok:
                ctx.report({"kind": "rejects_determined_system", "exc": ss[1], "site": ss[2]}, {**rec, "expected_shapes": exp_shapes, "message": ss[3]})
            else:
                if ss[1] != exp_shapes:
                    ctx.report({"kind": "wrong_shapes"}, {**rec, "expected": exp_shapes, "reported": ss[1]})
                if sa[0] == "ok":
                    got = {a: v for a, v in sa[1].items()}
                    for a, v in exp_axes.items():
                        if a in got and got[a] != v and not (isinstance(v, list) and list(np.ravel(got[a])) == v):
                            ctx.report({"kind": "wrong_axis_value"}, {**rec, "axis": a, "expected": v, "reported": got[a]})
        else:
            stats["unknown"] += 1
            if ok:
                # whatever is reported must satisfy every constraint: add it and re-run the reference solver
                extra = []
                for ti, s in enumerate(ss[1]):
                    if shapes[ti] is None:
                        dims = [cexp(d, names[k]) for d in p["tensors"][ti]]
                        if p["ell"] and ti in p["ell"]["where"]:
                            kk = p["ell"]["where"][ti]
                            dims[kk:kk] = [["v", names[k](f"E.{i}")] for i in range(info or 0)]
                        if len(dims) == len(s):
                            extra += [[e, int(v)] for e, v in zip(dims, s)]
                recheck.append(sx(["solve_propagate", eqs + extra]))
                recheck_owner.append((rec, ss[1], eqs, len(names[k].ids), sigma))
    routs = ctx.model.batch(recheck)
    for (rec, reported, eqs, nvars, sigma), m in zip(recheck_owner, routs):
        if m == "contra":
            ctx.report({"kind": "reported_values_violate_constraints"}, {**rec, "reported": reported, "equations": eqs})
            continue
        sols = second_solution(eqs, nvars, sigma)
        if sols:
            # two solutions exist; a violation only if they differ on a reported shape
            pass
    for p, inst in list(zip(probs, insts))[:4]:
        ctx.sample({"description": inst[0], "shapes": inst[1], "kwargs": inst[2], "variant": p["variant"]})
    ctx.coverage.update({
        "evaluations": len(probs) * 3,
        "rule": "generated (description, shapes-or-None, keyword subset) instances; variants consistent / contradicted keyword / contradicted "
                "dimension / non-dividing; 20% with lengths up to 2**40; 25% with one named ellipsis; distinct_nontrivial = distinct instances",
        "input_distribution": stats,
    })


def replay(ctx, path):
    data = json.load(open(path))
    if "description" not in data:
        print(json.dumps(data)[:2000])
        return 1
    import einx  # noqa: F401
    r = impl_solve((data["description"], [tuple(s) if s is not None else None for s in data["shapes"]], data["kwargs"]))
    print(json.dumps({k: data.get(k) for k in ("tags", "description", "shapes", "kwargs", "expected", "expected_shapes", "reported")}, indent=1))
    print("now:", r)
    print(f"VIOLATION property=C02 replay={path}")
    return 1
