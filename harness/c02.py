"""C02 - axis and rank solving is sound, unambiguous and exact.

Generated problems (expression lists with flatten / concat / numbers / one ellipsis, shapes known
or None, any subset of the keyword sizes, consistent / contradicted / non-dividing variants,
lengths up to 2**40) are given to einx.solve_shapes / solve_axes / matches and, as equation
systems over positive integers, to the extracted reference solver (Spec/Solve.v, proved sound in
Props/C02.v).  Envelope: reference says Det -> einx must report exactly those values; reference
says Contra -> einx must fail with RankError/AxisSizeError (matches: False); otherwise whatever
einx reports must satisfy every constraint (re-checked by the reference solver) and must not be
one of two exhibited solutions that differ on a reported quantity."""
import itertools
import json
import types

import numpy as np

from . import common, gencalls
from .common import sx
from .gencalls import Ax, Cat, Fl, leaves

BIG = [2 ** 16, 2 ** 20 + 3, 2 ** 31, 2 ** 31 + 5, 2 ** 33, 2 ** 40]


def gen_flat_probe(rng):
    """a flattened axis whose other factors are known (number, keyword or another tensor): the remaining factor is forced"""
    g = gencalls.G(rng)
    x = Ax("a", rng.choice([1, 2, 3, 5]))
    others = []
    kw = {}
    tensors = []
    for nm in ["b", "c"][: rng.randint(1, 2)]:
        r = rng.random()
        if r < 0.4:
            g.fresh += 1
            others.append(Ax(f"unit{g.fresh}", rng.choice([2, 3, 4]), number=True))
        elif r < 0.7:
            o = Ax(nm, rng.choice([2, 3, 5]))
            others.append(o)
            kw[nm] = o.size
        else:
            o = Ax(nm, rng.choice([2, 3, 5]))
            others.append(o)
            tensors.append([o.copy()] if rng.random() < 0.5 else [Ax("d", 2), o.copy()])
    fl = Fl(g.perm([x] + others))
    first = [fl] + ([Ax("d", 2)] if rng.random() < 0.3 else [])
    tensors = [first] + tensors
    used = {}
    for t in tensors:
        for l in leaves(t):
            if not l.number:
                used[l.name] = l.size
    return {"tensors": tensors, "known": [True] * len(tensors), "kw": kw, "variant": rng.choice(["consistent", "nondividing", "nondividing"]),
            "ells": [], "axes": used}


def gen_problem(rng):
    if rng.random() < 0.15:
        return gen_flat_probe(rng)
    g = gencalls.G(rng)
    big = rng.random() < 0.2
    sizes = [1, 2, 3, 4, 5, 7, 12] + (BIG if big else [])
    axes = []
    budget = 2 ** 61
    for nm in g.perm(gencalls.NAMES)[: rng.randint(1, 5)]:
        sz = rng.choice(sizes)
        if sz > budget:
            sz = rng.choice([2, 3, 5])
        budget //= sz          # every dimension (product of lengths) stays below 2**62: a real tensor dimension fits an int64
        axes.append(Ax(nm, sz))
    n = rng.randint(1, 3)
    tensors = []
    for _ in range(n):
        sub = g.perm([a for a in axes if rng.random() < 0.7] or axes[:1])
        dims = g.arrange(sub, units=0.05, flat=0.35)
        # numbers (fixed-size axes) and concatenations
        if rng.random() < 0.3:
            v = rng.choice([2, 3, 4])
            g.fresh += 1
            dims.insert(rng.randint(0, len(dims)), Ax(f"unit{g.fresh}", v, number=True))
        if rng.random() < 0.25 and axes:
            extra = g.pick_axes(1, exclude={a.name for a in axes}, sizes=[1, 2, 3, 5])[0]
            axes.append(extra)
            k = rng.randint(0, len(dims))
            part = rng.choice(axes)
            dims.insert(k, Cat([part.copy(), extra.copy()] if rng.random() < 0.5 else [extra.copy(), Fl([part.copy(), Ax("unit%d" % (g.fresh + 1), 2, number=True)])]))
            g.fresh += 1
        tensors.append(dims)
    used = {}
    for t in tensors:
        for l in leaves(t):
            if not l.number:
                used[l.name] = l.size
    # ellipses: named ellipsis axes "E...", "F..." expanded to k axes each, at root level of some tensors
    # (two in one tensor make the expansion ambiguous unless another tensor or a keyword tuple decides it)
    ells = []
    if rng.random() < 0.35:
        for nm in ["E", "F"][: rng.choice([1, 1, 2])]:
            k = rng.randint(0, 3)
            e = {"name": nm, "sizes": [rng.choice([1, 2, 3, 5]) for _ in range(k)], "where": {}}
            for ti in range(len(tensors)):
                if rng.random() < 0.6:
                    e["where"][ti] = rng.randint(0, len(tensors[ti]))
            if e["where"]:
                ells.append(e)
    known = [rng.random() < 0.75 for _ in tensors]
    if not any(known):
        known[0] = True
    kw = {nm: sz for nm, sz in used.items() if rng.random() < 0.5}
    variant = rng.choice(["consistent"] * 5 + ["contradict_kw", "contradict_dim", "nondividing", "rank_changed"])
    return {"tensors": tensors, "known": known, "kw": kw, "variant": variant, "ells": ells, "axes": used}


def layout(p, ti):
    """root-level items of tensor ti: ("dim", d) or ("ell", index into p["ells"])"""
    items = [("dim", d) for d in p["tensors"][ti]]
    ins = sorted(((e["where"][ti], k) for k, e in enumerate(p["ells"]) if ti in e["where"]), reverse=True)
    for pos, k in ins:
        items.insert(pos, ("ell", k))
    return items


def description(p):
    return ", ".join(" ".join(gencalls.p_dim(x) if kind == "dim" else p["ells"][x]["name"] + "..." for kind, x in layout(p, ti))
                     for ti in range(len(p["tensors"])))


def true_shape(p, ti):
    sh = []
    for kind, x in layout(p, ti):
        sh += [gencalls.dsize(x)] if kind == "dim" else list(p["ells"][x]["sizes"])
    return tuple(sh)


def problem_instance(p, rng):
    """-> (description, shapes (None for unknown), kwargs)"""
    desc = description(p)
    shapes = [true_shape(p, ti) if p["known"][ti] else None for ti in range(len(p["tensors"]))]
    kw = dict(p["kw"])
    v = p["variant"]
    if v == "contradict_kw" and kw:
        k = rng.choice(sorted(kw))
        kw[k] = kw[k] + rng.choice([1, 2, 7])
    elif v == "contradict_dim":
        cands = [i for i, s in enumerate(shapes) if s]
        if cands:
            i = rng.choice(cands)
            j = rng.randrange(len(shapes[i]))
            s = list(shapes[i])
            s[j] = s[j] + rng.choice([1, 2, 3])
            shapes[i] = tuple(s)
    elif v == "rank_changed":
        cands = [i for i, s in enumerate(shapes) if s is not None]
        if cands:
            i = rng.choice(cands)
            s = list(shapes[i])
            if s and rng.random() < 0.5:
                s.pop(rng.randrange(len(s)))
            else:
                s.insert(rng.randint(0, len(s)), rng.choice([1, 2, 3]))
            shapes[i] = tuple(s)
    elif v == "nondividing":
        cands = [(i, j) for i, s in enumerate(shapes) if s for j in range(len(s)) if s[j] > 2]
        if cands:
            i, j = rng.choice(cands)
            s = list(shapes[i])
            s[j] = s[j] + 1
            shapes[i] = tuple(s)
    return desc, shapes, kw


class VarIds:
    def __init__(self):
        self.ids = {}

    def __call__(self, name):
        return self.ids.setdefault(name, len(self.ids))


def cexp(d, vid):
    if isinstance(d, Ax):
        return ["n", d.size] if d.number else ["v", vid(d.name)]
    if isinstance(d, Fl):
        return ["prod", [cexp(c, vid) for c in d.cs]]
    return ["sum", [cexp(c, vid) for c in d.cs]]


def rank_system(p, shapes):
    """equations over x_k = count_k + 1 >= 1 (one variable per ellipsis): for every tensor of known rank the counts of its
    ellipses add up to rank - number of other root dims"""
    eqs = []
    for ti, s in enumerate(shapes):
        if s is None:
            continue
        items = layout(p, ti)
        es = [x for kind, x in items if kind == "ell"]
        rest = len(s) - (len(items) - len(es))
        if not es:
            if rest != 0:
                return None
            continue
        if rest < 0:
            return None
        eqs.append([["sum", [["v", k] for k in es]], rest + len(es)])
    return eqs


def rank_solutions(p, shapes, limit=40):
    """all assignments of repetition counts that satisfy the rank equations (brute force, counts 0..max rank)"""
    eqs = rank_system(p, shapes)
    if eqs is None:
        return []
    used = sorted({t[1] for e, _ in eqs for t in e[1]})
    top = max([len(s) for s in shapes if s is not None] + [0])
    sols = []
    for combo in itertools.product(range(top + 1), repeat=len(used)):
        c = dict(zip(used, combo))
        if all(sum(c[t[1]] + 1 for t in e[1]) == v for e, v in eqs):
            sols.append(c)
            if len(sols) >= limit:
                break
    return sols


def equations(p, shapes, kw, vid, counts):
    """size equations of the instance under the given repetition counts {ellipsis index: count}"""
    eqs = []
    for ti, s in enumerate(shapes):
        if s is None:
            continue
        dims = []
        for kind, x in layout(p, ti):
            if kind == "dim":
                dims.append(cexp(x, vid))
            else:
                if x not in counts:
                    return None
                dims += [["v", vid(f"{p['ells'][x]['name']}.{i}")] for i in range(counts[x])]
        if len(dims) != len(s):
            return None
        for e, v in zip(dims, s):
            eqs.append([e, int(v)])
    for k, v in kw.items():
        eqs.append([["v", vid(k)], int(v)])
    return eqs


def op_request(p, shapes):
    """einx.id with every tensor's root-level items reversed: (output description, arrays) or None when not applicable"""
    if any(sh is None for sh in shapes) or sum(int(np.prod(sh, dtype=object)) for sh in shapes) > 6000:
        return None
    for t in p["tensors"]:
        names = [l.name for l in leaves(t) if not l.number]
        if len(names) != len(set(names)) or any(isinstance(d, Cat) for d in t) or any(l.number for l in leaves(t)):
            return None
    outs = []
    for ti in range(len(p["tensors"])):
        items = layout(p, ti)[::-1]
        outs.append(" ".join(gencalls.p_dim(x) if kind == "dim" else p["ells"][x]["name"] + "..." for kind, x in items))
    arrays = []
    off = 0
    for sh in shapes:
        n = int(np.prod(sh))
        arrays.append((np.arange(n, dtype=np.int64) + off).reshape(sh))
        off += n
    return ", ".join(outs), arrays


def op_expected(p, arrays, counts):
    """the result of the reversed rearrangement under the given repetition counts"""
    res = []
    for ti, x in enumerate(arrays):
        blocks, pos = [], 0
        for kind, it in layout(p, ti):
            w = 1 if kind == "dim" else counts[it]
            blocks.append(list(range(pos, pos + w)))
            pos += w
        if pos != x.ndim:
            return None
        perm = [d for blk in blocks[::-1] for d in blk]
        res.append(np.transpose(x, perm))
    return res


def impl_solve(args):
    desc, shapes, kw, op = args
    import einx
    tensors = [None if s is None else types.SimpleNamespace(shape=s) for s in shapes]
    out = {}
    for fn in ("solve_shapes", "solve_axes", "matches"):
        try:
            r = common.with_alarm(40, getattr(einx, fn), desc, *tensors, **kw)
            if fn == "solve_shapes":
                r = [[int(x) for x in s] for s in r]
            elif fn == "solve_axes":
                r = {k: (np.asarray(v).astype(object).tolist()) for k, v in r.items()}
            out[fn] = ["ok", r]
        except BaseException as e:  # noqa: BLE001
            out[fn] = ["exc", common.classify_exc(e), common.exc_site(e), str(e)[:160]]
    if op is not None:
        try:
            r = common.with_alarm(40, einx.id, desc + " -> " + op[0], *[np.array(a) for a in op[1]], **kw)
            out["id"] = ["ok", [np.asarray(x) for x in (r if isinstance(r, tuple) else (r,))]]
        except BaseException as e:  # noqa: BLE001
            out["id"] = ["exc", common.classify_exc(e), common.exc_site(e), str(e)[:160]]
    return out


def edge_instances(rng):
    """constraints no assignment of POSITIVE integers satisfies although integers >= 0 (or reals) would: a part of a concatenation
    forced to 0; keyword sizes that are not positive integers.  solve_* / operations must fail with RankError / AxisSizeError
    (ValueError for a size that is no positive integer), matches must answer False -> (description, shapes, kwargs, kind)"""
    nm = rng.sample(["a", "b", "c", "d", "h", "w", "p", "q"], 4)
    A, B, C, D = nm
    n1, n2, n3 = rng.choice([2, 3, 4]), rng.choice([2, 3]), rng.choice([1, 2])
    out = [
        (f"({A} + {B}) {C}", [[n1, n2]], {A: n1}, "concatenation_part_forced_to_zero"),
        (f"{C} ({A} + {B} + {D})", [[n2, n1 + n3]], {A: n1, B: n3}, "concatenation_part_forced_to_zero"),
        (f"({A} + {B})...", [[n1, n1 + 1]], {A: (n1 - 1, n1 + 1)}, "concatenation_part_forced_to_zero"),
        # a dimension of length 0: no assignment of positive integers has it, whatever else determines the axis
        (f"{A} {B}, {A} {C}", [[0, n2], [n1, n3 + 1]], {}, "zero_length_dimension"),
        (f"{A} {B}", [[0, n2]], {A: n1 + 3}, "zero_length_dimension"),
        (f"{A}... {B}", [[0, n1, n2]], {A: (n3 + 3, n1)}, "zero_length_dimension"),
        (f"({A} {B}) {C}", [[0, n2]], {A: n1}, "zero_length_dimension"),
        (f"{A} {B}", [[n1, n2]], {A: -n1}, "size_not_a_positive_integer"),
        (f"{A}... {B}", [[n1, n1, n2]], {A: (n1, -n1)}, "size_not_a_positive_integer"),
        (f"({A} {B}) {C}", [[n1 * n2, n3]], {A: n1 + 0.5}, "size_not_a_positive_integer"),
        (f"({A} {B}) {C}", [[n1 * n2, n3]], {A: 0}, "size_not_a_positive_integer"),
        # a concatenation whose parts are unknown but at least 1 each: a dimension shorter than the number of parts has no assignment
        (f"({A} + {B}) {C}", [[1, n2]], {}, "concatenation_shorter_than_its_parts"),
        (f"{C} ({A} + {B} + {D})", [[n2, 2]], {}, "concatenation_shorter_than_its_parts"),
        (f"({A} + {B} + {D}) {C}", [[n1 + 1, n2]], {A: n1}, "concatenation_shorter_than_its_parts"),
        # products in which an axis occurs several times: no positive integers satisfy them (checked below by trying every candidate)
        (f"({A} {A})", [[8]], {}, "no_integer_root"),
        (f"({A} {A}) {B}", [[8, n2]], {}, "no_integer_root"),
        (f"{B} ({A} {A} {A})", [[n2, 9]], {}, "no_integer_root"),
        (f"({A} {B}) ({B} {C}) ({C} {A})", [[6, 15, 11]], {}, "no_integer_root"),
    ]
    assert not any(a * a == 8 for a in range(1, 9)) and not any(a ** 3 == 9 for a in range(1, 10))
    assert not any(a * b == 6 and b * c == 15 and c * a == 11 for a in range(1, 12) for b in range(1, 16) for c in range(1, 16))
    return out


def shorter_sum_equations(rng_unused=None):
    """the three systems of kind concatenation_shorter_than_its_parts as equations for the verified reference solver, which must call
    each of them contradictory (Spec/Solve.v: every unknown part of a sum is at least 1)"""
    def v(i):
        return ["v", i]
    return [[[["sum", [v(0), v(1)]], 1], [v(2), 3]],
            [[v(2), 3], [["sum", [v(0), v(1), v(3)]], 2]],
            [[["sum", [v(0), v(1), v(3)]], 5], [v(2), 3], [v(0), 4]]]


def run_edges(ctx):
    import einx
    n = 0
    for eqs, verdict in zip(shorter_sum_equations(), ctx.model.batch([sx(["solve_propagate", e]) for e in shorter_sum_equations()])):
        if verdict != "contra":
            ctx.tie_breaks.append({"correspondence": "reference solver: a sum of k unknown parts equal to less than k must be contradictory", "equations": eqs,
                                   "verdict": verdict})
    for _ in range(6 if ctx.tier == "quick" else 200):
        for desc, shapes, kw, kind in edge_instances(ctx.rng):
            tensors = [types.SimpleNamespace(shape=tuple(s)) for s in shapes]
            rec = {"description": desc, "shapes": shapes, "kwargs": {k: repr(v) for k, v in kw.items()}}
            allowed = ("RankError", "AxisSizeError") + (("ValueError",) if kind == "size_not_a_positive_integer" else ())
            for fn in ("solve_shapes", "solve_axes", "matches") + (() if kind == "no_integer_root" else ("id",)):     # (an axis twice in one output is a SemanticError of id)
                n += 1
                try:
                    if fn == "id":
                        r = common.with_alarm(40, einx.id, desc + " -> " + desc, *[np.zeros(s) for s in shapes], **kw)
                    else:
                        r = common.with_alarm(40, getattr(einx, fn), desc, *tensors, **kw)
                    if fn != "matches" or r is not False:
                        ctx.report({"kind": "accepts_unsatisfiable_constraints", "fn": fn, "case": kind}, {**rec, "reported": str(r)[:200]})
                except BaseException as e:  # noqa: BLE001
                    cls = common.classify_exc(e)
                    if fn == "matches":
                        ctx.report({"kind": "matches_raises_instead_of_false", "exc": cls, "case": kind}, {**rec, "message": str(e)[:200]})
                    elif cls not in allowed:
                        ctx.report({"kind": "unexpected_exception", "fn": fn, "exc": cls, "site": common.exc_site(e), "case": kind}, {**rec, "message": str(e)[:200]})
    return n


def bracket_group_probes(rng):
    """operations in which a bracketed group of axes is flattened in one operand and written at root level in another: determined by
    substitution when the root-level operand has a shape, under-determined when it is a tensor factory"""
    out = []
    for _ in range(4):
        h, w, b, c = rng.choice([2, 3]), rng.choice([2, 3, 4]), rng.choice([2, 4]), rng.choice([3, 5])
        x = np.arange(b * h * w).reshape(b, h * w) % 5
        y = np.arange(h * w * c).reshape(h, w, c) % 3
        exp = np.einsum("bhw,hwc->bc", x.reshape(b, h, w), y)
        first_flat = rng.random() < 0.7
        if first_flat:
            out.append(("dot", "b ([h w]), [h w] c -> b c", [x, y], {}, ["ok", exp]))
            out.append(("dot", "([h w]) b, [h w] c -> b c", [x.T.copy(), lambda shape: np.ones(shape)], {}, ["fail"]))
        else:
            out.append(("dot", "[h w] c, b ([h w]) -> b c", [y, x], {}, ["ok", exp]))
            out.append(("dot", "[h w] c, ([h w]) b -> b c", [lambda shape: np.ones(shape), x.T.copy()], {}, ["fail"]))
        out.append(("sum", "b ([h w]) -> b", [x], {"h": h}, ["ok", x.sum(axis=1)]))
    return out


def run_bracket_groups(ctx):
    import einx
    n = 0
    for fn, desc, args, kw, exp in bracket_group_probes(ctx.rng):
        n += 1
        rec = {"fn": fn, "description": desc, "shapes": [list(np.shape(a)) if not callable(a) else "factory" for a in args], "kwargs": kw}
        try:
            r = common.with_alarm(40, getattr(einx, fn), desc, *args, **kw)
            if exp[0] == "fail":
                ctx.report({"kind": "accepts_underdetermined_system", "fn": fn, "case": "bracketed_group_flattened_and_at_root_level"},
                           {**rec, "reported": str(np.shape(r))})
            elif np.shape(r) != np.shape(exp[1]) or not np.array_equal(np.asarray(r), exp[1]):
                ctx.report({"kind": "wrong_shapes", "fn": fn, "case": "bracketed_group_flattened_and_at_root_level"}, {**rec, "reported": np.asarray(r).tolist()})
        except BaseException as e:  # noqa: BLE001
            cls = common.classify_exc(e)
            if exp[0] == "ok":
                ctx.report({"kind": "rejects_determined_system", "fn": fn, "exc": cls, "site": common.exc_site(e), "case": "bracketed_group_flattened_and_at_root_level"},
                           {**rec, "message": str(e)[:200]})
            elif cls not in ("RankError", "AxisSizeError"):
                ctx.report({"kind": "unexpected_exception", "fn": fn, "exc": cls, "site": common.exc_site(e), "case": "bracketed_group_flattened_and_at_root_level"},
                           {**rec, "message": str(e)[:200]})
    return n


def expected_from(p, sigma, names, counts):
    """shapes and axes that follow from a full assignment (dict var id -> value)"""
    inv = {v: k for k, v in names.ids.items()}
    val = {inv[i]: v for i, v in sigma.items()}

    def ev(d):
        if isinstance(d, Ax):
            return d.size if d.number else val.get(d.name)
        vs = [ev(c) for c in d.cs]
        if any(v is None for v in vs):
            return None
        return int(np.prod(vs, dtype=object)) if isinstance(d, Fl) else sum(vs)

    shapes = []
    for ti in range(len(p["tensors"])):
        sh = []
        for kind, x in layout(p, ti):
            if kind == "dim":
                sh.append(ev(x))
            else:
                sh += [val.get(f"{p['ells'][x]['name']}.{i}") for i in range(counts.get(x, 0))]
        shapes.append(sh)
    axes = {k: v for k, v in val.items() if "." not in k}
    for k, e in enumerate(p["ells"]):
        if k in counts:
            axes[e["name"]] = [val.get(f"{e['name']}.{i}") for i in range(counts[k])]
    return shapes, axes


def ev_eq(e, s):
    if e[0] == "v":
        return s[e[1]]
    if e[0] == "n":
        return e[1]
    vs = [ev_eq(c, s) for c in e[1]]
    return int(np.prod(vs, dtype=object)) if e[0] == "prod" else sum(vs)


def all_solutions(eqs, nvars, sigma_partial, limit=6, hi=12):
    """brute-force search for solutions of the size system (values 1..hi for the variables the reference solver left open)"""
    free = [x for x in range(nvars) if x not in sigma_partial]
    if not free or len(free) > 3:
        return []
    sols = []
    for combo in itertools.product(range(1, hi + 1), repeat=len(free)):
        s = dict(sigma_partial)
        s.update(zip(free, combo))
        if all(ev_eq(e, s) == v for e, v in eqs):
            sols.append(s)
            if len(sols) >= limit:
                break
    return sols


def gen_nonlinear(rng):
    """systems in which lengths occur only in symmetric combinations (sum and product): several assignments satisfy them"""
    a, b = Ax("a", rng.choice([1, 2, 3, 4, 5])), Ax("b", rng.choice([2, 3, 4, 5, 6]))
    c = Ax("c", rng.choice([2, 3]))
    combos = [lambda: Cat([a.copy(), b.copy()]), lambda: Fl([a.copy(), b.copy()]), lambda: Fl([b.copy(), a.copy()]),
              lambda: Cat([b.copy(), a.copy()]), lambda: Fl([a.copy(), b.copy(), c.copy()]), lambda: Cat([Fl([a.copy(), b.copy()]), c.copy()])]
    dims = [rng.choice(combos)() for _ in range(rng.randint(2, 3))]
    if rng.random() < 0.5:
        tensors = [dims]
    else:
        k = rng.randint(1, len(dims) - 1)
        tensors = [dims[:k], dims[k:]]
    used = {}
    for t in tensors:
        for l in leaves(t):
            used[l.name] = l.size
    kw = {"c": c.size} if "c" in used and rng.random() < 0.7 else {}
    if rng.random() < 0.25:
        kw["a"] = a.size          # breaks the symmetry: now everything follows by substitution
    return {"tensors": tensors, "known": [True] * len(tensors), "kw": kw, "variant": "consistent", "ells": [], "axes": used}


def run(ctx):
    import einx  # noqa: F401
    n = 800 if ctx.tier == "quick" else 30000
    probs = [gen_nonlinear(ctx.rng) if ctx.rng.random() < 0.08 else gen_problem(ctx.rng) for _ in range(n)]
    insts = []
    for p in probs:
        desc, shapes, kw = problem_instance(p, ctx.rng)
        insts.append((desc, shapes, kw, op_request(p, shapes)))
    impl = common.pmap(impl_solve, insts)
    # ---- phase 1: repetition counts (rank equations through the reference solver) ----
    rank_lines, rank_idx, status, counts_of, weak = [], [], {}, {}, set()
    for k, (p, (desc, shapes, kw, op)) in enumerate(zip(probs, insts)):
        eqs_r = rank_system(p, shapes)
        if eqs_r is None:
            status[k] = "rank_contra"
        elif not eqs_r:
            status[k] = "det" if not p["ells"] else "free_rank"
            counts_of[k] = [{}]
        else:
            rank_idx.append(k)
            rank_lines.append(sx(["solve_propagate", eqs_r]))
    for k, m in zip(rank_idx, ctx.model.batch(rank_lines)):
        p, (desc, shapes, kw, op) = probs[k], insts[k]
        inrank = {t[1] for e, _ in rank_system(p, shapes) for t in e[1]}
        if m == "contra":
            status[k] = "rank_contra"
            continue
        if m[0] == "det":
            sols = [{int(x): int(v) - 1 for x, v in m[1]}]
        else:
            sols = rank_solutions(p, shapes)          # exhaustive: a count never exceeds the rank
            weak.add(k)                               # unique only by an argument other than substitution: einx may give up
        if not sols:
            status[k] = "rank_contra"
        elif len(inrank) < len(p["ells"]):
            status[k] = "free_rank"                   # an ellipsis occurs only in tensors of unknown rank
        elif len(sols) == 1:
            status[k], counts_of[k] = "det", sols
        else:
            status[k], counts_of[k] = "ambiguous", sols[:6]
    # ---- phase 2: lengths (size equations through the reference solver) ----
    lines, owner, names, systems = [], [], {}, {}
    for k, (p, (desc, shapes, kw, op)) in enumerate(zip(probs, insts)):
        if status[k] not in ("det", "ambiguous"):
            continue
        for j, cnt in enumerate(counts_of[k]):
            vid = VarIds()
            eqs = equations(p, shapes, kw, vid, cnt)
            names[(k, j)], systems[(k, j)] = vid, eqs
            if eqs is not None:
                lines.append(sx(["solve_propagate", eqs]))
                owner.append((k, j))
    outs = dict(zip(owner, ctx.model.batch(lines)))
    stats = {"det": 0, "contra": 0, "unknown": 0, "rank_contradiction": 0, "free_rank": 0, "ambiguous_rank": 0, "ambiguous_rank_with_two_full_solutions": 0,
             "several_solutions_found": 0, "op_level_calls": 0, "impl_ok": 0, "impl_fail": 0, "big_lengths": 0}
    recheck, recheck_owner = [], []
    for k, (p, inst, r) in enumerate(zip(probs, insts, impl)):
        desc, shapes, kw, op = inst
        rec = {"description": desc, "shapes": shapes, "kwargs": kw, "variant": p["variant"]}
        ctx.distinct.add(desc + "|" + json.dumps(shapes) + "|" + json.dumps(kw, sort_keys=True))
        if any(v >= 2 ** 31 for sh in shapes if sh for v in sh) or any(v >= 2 ** 31 for v in kw.values()):
            stats["big_lengths"] += 1
        ss, sa, sm, so = r["solve_shapes"], r["solve_axes"], r["matches"], r.get("id")
        if so is not None:
            stats["op_level_calls"] += 1
        for fn, res in r.items():
            if res[0] == "exc" and res[1] not in ("RankError", "AxisSizeError"):
                ctx.report({"kind": "unexpected_exception", "fn": fn, "exc": res[1], "site": res[2]}, {**rec, "message": res[3]})
        ok = ss[0] == "ok"
        stats["impl_ok" if ok else "impl_fail"] += 1
        if (sm[0] == "ok" and bool(sm[1]) != ok):
            ctx.report({"kind": "matches_disagrees_with_solve_shapes"}, {**rec, "matches": sm, "solve_shapes": ss})
        st = status[k]
        if st == "rank_contra":
            stats["rank_contradiction"] += 1
            for fn, res in (("solve_shapes", ss), ("id", so)):
                if res is not None and res[0] == "ok":
                    ctx.report({"kind": "accepts_rank_contradiction", "fn": fn}, {**rec, "reported": str(res[1])[:300]})
            continue
        if st == "free_rank":
            stats["free_rank"] += 1
            continue
        if st == "ambiguous":
            stats["ambiguous_rank"] += 1
            full = []
            for j, cnt in enumerate(counts_of[k]):
                m = outs.get((k, j))
                if m is not None and m != "contra" and m[0] == "det":
                    sigma = {int(x): int(v) for x, v in m[1]}
                    sh_j, ax_j = expected_from(p, sigma, names[(k, j)], cnt)
                    if not any(v is None for sh in sh_j for v in sh):
                        full.append((cnt, sh_j, ax_j))
            if len(full) >= 2:
                # two complete assignments (each verified by the reference solver) with different repetition counts
                stats["ambiguous_rank_with_two_full_solutions"] += 1
                wit = [{"counts": {p["ells"][i]["name"]: c for i, c in f[0].items()}, "shapes": f[1], "axes": f[2]} for f in full[:2]]
                if sa[0] == "ok":
                    ctx.report({"kind": "reports_a_value_that_differs_between_solutions", "fn": "solve_axes", "what": "ellipsis_expansion"},
                               {**rec, "reported": sa[1], "two_solutions": wit})
                if ok and any(f[1] != full[0][1] for f in full[1:]):
                    ctx.report({"kind": "reports_a_value_that_differs_between_solutions", "fn": "solve_shapes", "what": "ellipsis_expansion"},
                               {**rec, "reported": ss[1], "two_solutions": wit})
                if so is not None and so[0] == "ok":
                    exps = [op_expected(p, op[1], f[0]) for f in full]
                    if any(e is not None and exps[0] is not None and any(not np.array_equal(x, y) for x, y in zip(e, exps[0])) for e in exps[1:]):
                        ctx.report({"kind": "result_depends_on_an_ambiguous_expansion", "fn": "id"},
                                   {**rec, "output": op[0], "two_solutions": wit, "returned_shapes": [list(x.shape) for x in so[1]]})
            elif all(outs.get((k, j)) == "contra" for j in range(len(counts_of[k]))) and len(counts_of[k]) < 6:
                if ok:
                    ctx.report({"kind": "accepts_unsatisfiable_system", "variant": p["variant"]}, {**rec, "reported": ss[1]})
            continue
        cnt = counts_of[k][0]
        eqs, m = systems[(k, 0)], outs.get((k, 0))
        if eqs is None or m is None:
            continue
        if m == "contra":
            stats["contra"] += 1
            for fn, res in (("solve_shapes", ss), ("id", so)):
                if res is not None and res[0] == "ok":
                    ctx.report({"kind": "accepts_unsatisfiable_system", "variant": p["variant"], "fn": fn}, {**rec, "reported": str(res[1])[:300], "equations": eqs})
            continue
        sigma = {int(x): int(v) for x, v in m[1]}
        if so is not None and so[0] == "ok":
            e = op_expected(p, op[1], cnt)
            if e is None or len(e) != len(so[1]) or any(not np.array_equal(x, y) for x, y in zip(e, so[1])):
                ctx.report({"kind": "operation_uses_wrong_expansion", "fn": "id"}, {**rec, "output": op[0], "returned_shapes": [list(x.shape) for x in so[1]]})
        if m[0] == "det":
            stats["det"] += 1
            exp_shapes, exp_axes = expected_from(p, sigma, names[(k, 0)], cnt)
            if any(v is None for sh in exp_shapes for v in sh):
                # an axis occurs only in tensors of unknown shape and has no keyword: it is free, the reported
                # shapes differ between solutions, so the call has to fail
                stats["free_axis"] = stats.get("free_axis", 0) + 1
                if ok:
                    ctx.report({"kind": "accepts_underdetermined_system"}, {**rec, "reported": ss[1]})
                continue
            if not ok:
                if k not in weak:
                    ctx.report({"kind": "rejects_determined_system", "exc": ss[1], "site": ss[2]}, {**rec, "expected_shapes": exp_shapes, "message": ss[3]})
            else:
                if ss[1] != exp_shapes:
                    ctx.report({"kind": "wrong_shapes"}, {**rec, "expected": exp_shapes, "reported": ss[1]})
                if sa[0] == "ok":
                    got = {a: v for a, v in sa[1].items()}
                    for a, v in exp_axes.items():
                        if a in got and got[a] != v:      # an ellipsis axis is reported as the list of its lengths, also when it has one
                            ctx.report({"kind": "wrong_axis_value"}, {**rec, "axis": a, "expected": v, "reported": got[a]})
            if so is not None and so[0] != "ok" and k not in weak:
                ctx.report({"kind": "rejects_determined_system", "fn": "id", "exc": so[1], "site": so[2]}, {**rec, "output": op[0], "message": so[3]})
        else:
            stats["unknown"] += 1
            # several assignments may satisfy the constraints: whatever is reported must be the same in all of them
            sols = all_solutions(eqs, len(names[(k, 0)].ids), sigma)
            if len(sols) >= 2:
                stats["several_solutions_found"] += 1
                exp = [expected_from(p, s2, names[(k, 0)], cnt) for s2 in sols]
                wit = [{"shapes": e[0], "axes": e[1]} for e in exp[:2]]
                if ok and any(e[0] != exp[0][0] for e in exp[1:]):
                    ctx.report({"kind": "reports_a_value_that_differs_between_solutions", "fn": "solve_shapes", "what": "length"},
                               {**rec, "reported": ss[1], "two_solutions": wit})
                if sa[0] == "ok":
                    differ = sorted(a for a in exp[0][1] if any(e[1].get(a) != exp[0][1].get(a) for e in exp[1:]))
                    hit = [a for a in differ if a in sa[1]]
                    if hit:
                        ctx.report({"kind": "reports_a_value_that_differs_between_solutions", "fn": "solve_axes", "what": "length"},
                                   {**rec, "axes": hit, "reported": sa[1], "two_solutions": wit})
            if ok:
                # whatever is reported must satisfy every constraint: add it and re-run the reference solver
                extra = []
                for ti, sh in enumerate(ss[1]):
                    if shapes[ti] is None:
                        dims = []
                        for kind, x in layout(p, ti):
                            dims += [cexp(x, names[(k, 0)])] if kind == "dim" else [["v", names[(k, 0)](f"{p['ells'][x]['name']}.{i}")] for i in range(cnt.get(x, 0))]
                        if len(dims) == len(sh):
                            extra += [[e, int(v)] for e, v in zip(dims, sh)]
                if sa[0] == "ok":
                    for a, v in sa[1].items():
                        if a in names[(k, 0)].ids and isinstance(v, int):
                            extra.append([["v", names[(k, 0)](a)], int(v)])
                recheck.append(sx(["solve_propagate", eqs + extra]))
                recheck_owner.append((rec, ss[1], eqs))
    routs = ctx.model.batch(recheck)
    for (rec, reported, eqs), m in zip(recheck_owner, routs):
        if m == "contra":
            ctx.report({"kind": "reported_values_violate_constraints"}, {**rec, "reported": reported, "equations": eqs})
    for p, inst in list(zip(probs, insts))[:4]:
        ctx.sample({"description": inst[0], "shapes": inst[1], "kwargs": inst[2], "variant": p["variant"]})
    stats["edge_instances"] = run_edges(ctx)
    stats["bracket_group_probes"] = run_bracket_groups(ctx)
    ctx.coverage.update({
        "evaluations": len(probs) * 3 + stats["op_level_calls"] + stats["edge_instances"],
        "rule": "generated (description, shapes-or-None, keyword subset) instances; variants consistent / contradicted keyword / contradicted "
                "dimension / non-dividing; 20% with lengths up to 2**40; 35% with one or two named ellipses (possibly both in one tensor); 8% "
                "systems of sums and products with several solutions; einx.id with every tensor's root items reversed as operation-level probe; "
                "distinct_nontrivial = distinct instances",
        "input_distribution": stats,
    })


def replay(ctx, path):
    data = json.load(open(path))
    if "description" not in data:
        print(json.dumps(data)[:2000])
        return 1
    import einx  # noqa: F401
    r = impl_solve((data["description"], [tuple(s) if s is not None else None for s in data["shapes"]], data["kwargs"], None))
    print(json.dumps({k: data.get(k) for k in ("tags", "description", "shapes", "kwargs", "expected", "expected_shapes", "reported")}, indent=1))
    print("now:", r)
    print(f"VIOLATION property=C02 replay={path}")
    return 1
