"""C09 - arguments are never modified (except the documented in-place *_at target).

Every generated call is executed on arguments in several memory layouts (contiguous, transposed
view, broadcast view, read-only); afterwards contents, shape, dtype, strides and flags of every
argument (and the keyword objects) must equal their snapshot - except argument 0 of
set_at/add_at/subtract_at.  Read-only arguments must not make a call fail.  The static side
(Props/C09.v) proves over the regenerated primitive tables that in-place numpy primitives are
reachable from the *_at operations only."""
import copy
import json

import numpy as np

from . import common, gencalls, implrun

LAYOUTS = ["contiguous", "transposed", "broadcast", "readonly"]


def relayout(a, layout, rng):
    a = np.asarray(a)
    if layout == "contiguous" or a.ndim == 0:
        return np.array(a)
    if layout == "transposed":
        perm = list(range(a.ndim))[::-1]
        base = np.ascontiguousarray(np.transpose(a, perm))
        return np.transpose(base, perm)         # same values, non-contiguous strides
    if layout == "broadcast":
        ones = [i for i, s in enumerate(a.shape) if s > 1]
        if ones and (a == np.take(a, [0], axis=ones[0])).all():
            return np.array(a)
        # a broadcast view needs a constant axis: stack the tensor under a new leading stride-0 axis and index it
        v = np.broadcast_to(a, (2,) + a.shape)[1]
        return v                                  # read-only view of a broadcast array
    b = np.array(a)
    b.setflags(write=False)
    return b


def snapshot(x):
    if isinstance(x, np.ndarray):
        return ("arr", x.tobytes(), x.shape, str(x.dtype), x.strides, bool(x.flags.writeable), bool(x.flags.c_contiguous))
    return ("obj", copy.deepcopy(x))


def _work(item):
    c, layout, seed = item
    import random
    rng = random.Random(seed)
    out = []
    for b in ["numpy", "numpy.numpylike", "numpy.einsum"]:
        for graph in (False, True):
            args = [relayout(a, layout, rng) for a in c.arrays]
            inplace_target = c.family == "update_at" and not graph
            readonly_target = inplace_target and not args[0].flags.writeable
            if readonly_target and rng.random() < 0.5:
                args[0] = np.array(args[0])
                readonly_target = False
            # (otherwise the target stays read-only: the call may refuse it or - np.add.at ignores the flag - update its contents, the
            # documented exception; its shape, dtype, strides and FLAGS are the caller's all the same)
            kw = dict(c.size_kwargs())
            extra = copy.deepcopy(c.extra_kwargs)
            snaps = [snapshot(a) for a in args]
            ksnap = copy.deepcopy(extra)
            import einx
            try:
                kwargs = {**kw, **extra, "backend": b}
                if graph:
                    kwargs["graph"] = True
                common.with_alarm(30, getattr(einx, c.op), c.desc, *args, **kwargs)
                err = None
            except BaseException as e:  # noqa: BLE001
                err = (common.classify_exc(e), common.exc_site(e), str(e)[:200])
            if err is not None and err[0] not in ("OperationNotSupportedError",) and c.family != "elementwise_arity" and not readonly_target:
                # a failure caused by a read-only / non-contiguous argument is a violation; others belong to C01/C03
                base = implrun.run_call(c, b, graph=graph)
                if base[0] != "exc":
                    out.append(({"kind": "layout_makes_call_fail", "layout": layout, "backend": b, "family": c.family, "exc": err[0], "graph": graph},
                                {"call": c.record(), "message": err[2], "site": err[1]}))
            for i, (a, s) in enumerate(zip(args, snaps)):
                if i == 0 and inplace_target:
                    if snapshot(a)[2:] != s[2:]:
                        out.append(({"kind": "argument_modified", "arg": 0, "what": "shape_dtype_or_flags_of_the_update_target", "layout": layout, "backend": b,
                                     "family": c.family, "op": c.op, "graph": graph},
                                    {"call": c.record(), "before": str(s[2:])[:300], "after": str(snapshot(a)[2:])[:300]}))
                    continue
                if snapshot(a) != s:
                    out.append(({"kind": "argument_modified", "arg": i, "layout": layout, "backend": b, "family": c.family, "op": c.op, "graph": graph},
                                {"call": c.record(), "before": str(s[1:])[:300], "after": str(snapshot(a)[1:])[:300]}))
            if extra != ksnap:
                out.append(({"kind": "keyword_object_modified", "backend": b, "family": c.family}, {"call": c.record()}))
    return out


def _work_solve(item):
    c, layout = item
    import einx
    out = []
    descs = ", ".join(c.desc.split(" -> ")[0].split(", "))
    args = [relayout(a, layout, None) for a in c.arrays]
    snaps = [snapshot(a) for a in args]
    for fn in ("solve_shapes", "solve_axes", "matches"):
        try:
            kw = dict(c.size_kwargs())
            if fn == "matches":
                d0 = descs.split(", ")[0]
                common.with_alarm(30, einx.matches, d0, args[0], **kw)
            else:
                common.with_alarm(30, getattr(einx, fn), descs, *args, **kw)
        except BaseException:  # noqa: BLE001
            pass
        for i, (a, s) in enumerate(zip(args, snaps)):
            if snapshot(a) != s:
                out.append(({"kind": "argument_modified", "arg": i, "fn": fn, "layout": layout}, {"call": c.record()}))
    return out


def _work_options(seed):
    """sizes and options handed over as arrays / lists / tuples (per-repetition sizes of an ellipsis axis, the shift of roll):
    their contents, dtype and flags are the caller's and stay as they are"""
    import random
    import einx
    rng = random.Random(seed)
    out = []
    m = rng.randint(1, 3)
    inner = [rng.choice([1, 2, 3]) for _ in range(m)]
    outer = [rng.choice([1, 2]) for _ in range(m)]
    x = np.arange(int(np.prod([i * o for i, o in zip(inner, outer)]))).reshape([i * o for i, o in zip(inner, outer)])
    holder = rng.choice(["int64", "int32", "list", "tuple", "readonly"])
    if holder == "list":
        sizes = list(inner)
    elif holder == "tuple":
        sizes = tuple(inner)
    else:
        sizes = np.array(inner, dtype=np.int32 if holder == "int32" else np.int64)
        if holder == "readonly":
            sizes.flags.writeable = False
    calls = [("id", "(a b)... -> a... b...", [x], {"b": sizes}), ("sum", "(a [b])...", [x], {"b": sizes}), ("solve_axes", "(a b)...", [x], {"b": sizes}),
             ("matches", "(a b)...", [x], {"b": sizes}), ("id", "(a b)... -> b... a...", [x], {"b": sizes, "graph": True})]
    shift = np.array(rng.choice([1, 2]))
    y = np.arange(6.0).reshape(2, 3)
    calls.append(("roll", "a [b]", [y], {"shift": shift}))
    for fn, desc, args, kw in calls:
        snaps = {k: snapshot(v) for k, v in kw.items()}
        asnap = [snapshot(a) for a in args]
        try:
            common.with_alarm(30, getattr(einx, fn), desc, *args, **kw)
        except BaseException:  # noqa: BLE001
            pass
        for k, v in kw.items():
            if snapshot(v) != snaps[k]:
                out.append(({"kind": "option_object_modified", "fn": fn, "holder": type(v).__name__, "graph": bool(kw.get("graph"))},
                            {"fn": fn, "desc": desc, "option": k, "before": str(snaps[k][1:])[:200], "after": str(snapshot(v)[1:])[:200]}))
        for i, a in enumerate(args):
            if snapshot(a) != asnap[i]:
                out.append(({"kind": "argument_modified", "arg": i, "fn": fn}, {"fn": fn, "desc": desc}))
    return out


def same_shape_update_cases(rng, n):
    """indexed updates in which the target, the coordinates and the updates have the same shape (a one-dimensional target that is
    used as it is): only the target may change"""
    out = []
    for _ in range(n):
        a = rng.choice([3, 4, 5])
        op = rng.choice(["set_at", "add_at", "subtract_at"])
        form = rng.choice(["vec", "bracket1"])
        t = gencalls.int_data(rng, (a,)).astype(rng.choice([np.int64, np.float64]))
        idx = np.array([rng.randrange(a) for _ in range(a)], dtype=np.int64)
        upd = gencalls.int_data(rng, (a,), 1, 9).astype(t.dtype)
        if form == "vec":
            desc, arrays = "[a], i, i -> [a]", [t, idx, upd]
        else:
            desc, arrays = "[a], i [1], i -> [a]", [t, idx.reshape(a, 1), upd]
        c = gencalls.Call("update_at", op, [], [], arrays, desc=desc)
        c.size_kwargs = lambda rng=None: {}
        c.all_axes = lambda: {}
        out.append(c)
    return out


def run(ctx):
    import einx  # noqa: F401
    n = 250 if ctx.tier == "quick" else 6000
    items = []
    fam = {}
    for k in range(n):
        c = gencalls.gen_call(ctx.rng)
        fam[c.family] = fam.get(c.family, 0) + 1
        for layout in LAYOUTS:
            items.append((c, layout, ctx.rng.randrange(1 << 30)))
        ctx.distinct.add(c.op + "|" + c.desc)
        if c.family == "elementwise" and " -> " in c.desc:
            # one operand too many (or too few): whatever the outcome, no argument may be written to
            c2 = copy.copy(c)
            ins, out = c.desc.split(" -> ")
            parts = ins.split(", ")
            if ctx.rng.random() < 0.75:
                j = ctx.rng.randrange(len(parts))
                c2.desc = ", ".join(parts + [parts[j]]) + " -> " + out
                c2.arrays = list(c.arrays) + [np.array(c.arrays[j])]
            elif len(parts) > 1:
                c2.desc = ", ".join(parts[:-1]) + " -> " + out
                c2.arrays = list(c.arrays[:-1])
            c2.family = "elementwise_arity"
            fam[c2.family] = fam.get(c2.family, 0) + 1
            for layout in ("contiguous", "readonly"):
                items.append((c2, layout, ctx.rng.randrange(1 << 30)))
            ctx.distinct.add(c2.op + "|" + c2.desc)
    for c in same_shape_update_cases(ctx.rng, 12 if ctx.tier == "quick" else 300):
        fam["update_at_same_shapes"] = fam.get("update_at_same_shapes", 0) + 1
        for layout in ("contiguous", "readonly"):
            items.append((c, layout, ctx.rng.randrange(1 << 30)))
    res = common.pmap(_work, items)
    for viol in res:
        for tags, payload in viol:
            ctx.report(tags, payload)
    sol = common.pmap(_work_solve, [(c, l) for (c, l, _) in items[:: max(1, len(items) // (n or 1))]][: n])
    for viol in sol:
        for tags, payload in viol:
            ctx.report(tags, payload)
    opts = common.pmap(_work_options, [ctx.rng.randrange(1 << 30) for _ in range(40 if ctx.tier == "quick" else 1500)])
    for viol in opts:
        for tags, payload in viol:
            ctx.report(tags, payload)
    for c, layout, _ in items[:5]:
        ctx.sample({"call": c.record(), "layout": layout})
    ctx.coverage.update({
        "evaluations": len(items) * 6 + len(sol) * 3 + len(opts) * 6,
        "rule": "generated calls x 4 memory layouts x 3 backends x (run, graph=True) + solve_shapes/solve_axes/matches; snapshot = bytes, "
                "shape, dtype, strides, writeable and contiguity flags; distinct_nontrivial = distinct (op, description)",
        "input_distribution": {"family": fam, "layouts": LAYOUTS},
    })


def replay(ctx, path):
    data = json.load(open(path))
    print(json.dumps({k: data.get(k) for k in ("tags", "call", "before", "after", "message")}, indent=1)[:3000])
    print(f"VIOLATION property=C09 replay={path}")
    return 1
