"""C06 - a call's outcome does not depend on earlier calls (cache transparency).

Histories of calls (built-in ops, solve_*/matches, graph=True, nested `with backend:` blocks,
failing calls of every stage, and groups of calls whose arguments are equal-but-not-identical under
Python hashing: 2 / 2.0 / True / np.int64(2), array / Python scalar / factory of one shape) are
executed in one long-running child process; every call is also executed alone in a pristine
process forked from a parent that imported einx but never used it.  Outcomes (digest of values,
shapes and dtypes; alpha-renamed graph text; exception class) must coincide."""
import hashlib
import json
import os
import pickle
import re
import signal
import sys

import numpy as np

from . import common, gencalls


# ------------------------------------------------------------------ call specifications (picklable)
def spec_of_call(c, rng, graph=False, backend=None, blocks=(), kwmode="plain", argmode="plain", closed_inner=(), fkind=None, fpos=None):
    args = []
    for i, a in enumerate(c.arrays):
        a = np.asarray(a)
        if fkind is not None and i == fpos:
            args.append(("factory_sig", a.tolist(), str(a.dtype), fkind))      # same Python type, different signatures
        elif argmode == "factory" and rng.random() < 0.5:
            args.append(("factory", a.tolist(), str(a.dtype)))
        elif a.ndim == 0 and argmode == "scalar":
            args.append(("scalar", a.item()))
        else:
            args.append(("arr", a.tolist(), str(a.dtype)))
    kw = {}
    sizes = c.all_axes() if (argmode == "factory" or fkind is not None) else c.size_kwargs()
    for k, v in sizes.items():
        if kwmode == "float":
            kw[k] = ("float", float(v))
        elif kwmode == "npint":
            kw[k] = ("npint", int(v))
        elif kwmode == "bool" and v == 1:
            kw[k] = ("bool", True)
        else:
            kw[k] = ("int", int(v))
    for k, v in c.extra_kwargs.items():
        kw[k] = ("tuple", list(v)) if isinstance(v, tuple) else ("int", int(v))
    return {"fn": c.op, "desc": c.desc, "args": args, "kwargs": kw, "graph": graph, "backend": backend, "blocks": list(blocks),
            "closed_inner": list(closed_inner)}


def make_factory(kind, data):
    if kind == "plain":
        def f(shape):
            return np.array(data)
    elif kind == "named":
        def f(shape, name="none", arg_index=-5):
            return np.array(data) + np.asarray(arg_index + 5 + len(name)).astype(data.dtype)
    elif kind == "kwargs":
        def f(shape, **kwargs):
            return np.array(data) + np.asarray(len(kwargs)).astype(data.dtype)
    else:
        def f(shape, signature=None):
            return np.array(data) + np.asarray(0 if signature is None else 2).astype(data.dtype)
    return f


def build(spec):
    def arg(a):
        if a[0] == "arr":
            return np.array(a[1], dtype=a[2])
        if a[0] == "scalar":
            return a[1]
        data = np.array(a[1], dtype=a[2])
        if a[0] == "factory_sig":
            return make_factory(a[3], data)
        return lambda shape: np.array(data)

    def val(v):
        if v[0].startswith("arr_"):
            return np.asarray(v[1], dtype={"arr_i": np.int64, "arr_f": np.float64, "arr_b": np.bool_, "arr_i32": np.int32}[v[0]])
        if v[0] == "tuple_f":
            return tuple(float(i) for i in v[1])
        return {"int": int, "float": float, "bool": bool, "npint": np.int64, "tuple": tuple, "list": list}[v[0]](v[1])
    order = spec.get("kw_order") or list(spec["kwargs"])          # the order in which the caller writes the keywords
    return [arg(a) for a in spec["args"]], {k: val(spec["kwargs"][k]) for k in order}


def alpha(text):
    names = {}

    def ren(m):
        w = m.group(0)
        if re.fullmatch(r"[a-z]{1,3}", w) and w not in ("np", "op", "def", "as"):
            return names.setdefault(w, f"v{len(names)}")
        return w
    return re.sub(r"[A-Za-z_][A-Za-z0-9_]*", ren, text)


_ADAPTED = {}


def execute(spec):
    """run one call in this process -> outcome (JSON-able)"""
    import einx
    args, kw = build(spec)
    if spec["backend"]:
        kw["backend"] = spec["backend"]
    if spec["graph"]:
        kw["graph"] = True
    if spec["fn"].startswith("adapt:"):
        # a numpy reduction adapted by einx (its generated code refers to the function as a constant)
        # one adapted function per numpy function and process, as a program would keep it
        fn = _ADAPTED.get(spec["fn"]) or _ADAPTED.setdefault(spec["fn"], einx.numpy.adapt_numpylike_reduce(getattr(np, spec["fn"][6:])))
        kw.pop("backend", None)
    elif spec["fn"] == "where:keywords":
        # einx.where with its two value tensors passed by keyword, in the order the spec says
        vals = {"x": args[1], "y": args[2]}
        args = args[:1]
        kw = {**{k: vals[k] for k in spec["tensor_kw_order"]}, **kw}
        fn = einx.where
    elif spec["fn"] == "adaptel:two_options":
        fn = _ADAPTED.get(spec["fn"]) or _ADAPTED.setdefault(
            spec["fn"], einx.numpy.adapt_numpylike_elementwise(lambda x, y, *, scale=1.0, offset=0.0: x * scale + y + offset))
        kw.pop("backend", None)
    elif spec["fn"] == "adaptel:copysign":
        # an adapted element-wise function with a keyword-only option whose SIGN matters (0.0 == -0.0 in Python)
        fn = _ADAPTED.get(spec["fn"]) or _ADAPTED.setdefault(
            spec["fn"], einx.numpy.adapt_numpylike_elementwise(lambda x, y, *, s=1.0: np.copysign(x, s) + y * 2.0))
        kw.pop("backend", None)
    else:
        fn = getattr(einx, spec["fn"])
    blocks = [einx.backend.get(b) for b in spec["blocks"]]

    def alarm(*a):
        raise TimeoutError()
    signal.signal(signal.SIGALRM, alarm)
    signal.alarm(600)
    try:
        for b in blocks:
            b.__enter__()
        try:
            inner = [einx.backend.get(b) for b in spec.get("closed_inner", [])]     # blocks opened and closed again before the call
            for b in inner:
                b.__enter__()
            for b in reversed(inner):
                b.__exit__(None, None, None)
            if spec.get("warnings_as_errors"):
                import warnings
                with warnings.catch_warnings():
                    warnings.simplefilter("error")          # a failure whose cause is not part of any cache key
                    r = fn(spec["desc"], *args, **kw)
            else:
                r = fn(spec["desc"], *args, **kw)
        finally:
            for b in reversed(blocks):
                b.__exit__(None, None, None)
        if spec["graph"]:
            return ["graph", hashlib.sha1(alpha(str(r)).encode()).hexdigest()[:16]]
        if isinstance(r, dict):
            return ["value", json.dumps({k: np.asarray(v).tolist() for k, v in sorted(r.items())})]
        if isinstance(r, bool):
            return ["value", str(r)]
        rs = r if isinstance(r, tuple) else (r,)
        h = hashlib.sha1()
        for x in rs:
            if isinstance(x, tuple):
                h.update(str(x).encode())
                continue
            x = np.asarray(x)
            if x.dtype.kind == "f":
                x = np.round(x, 9) + 0.0
            h.update(str(x.shape).encode() + str(x.dtype).encode() + x.tobytes())
        return ["value", h.hexdigest()[:16]]
    except BaseException as e:  # noqa: BLE001
        return ["exc", common.classify_exc(e)]
    finally:
        signal.alarm(0)


def in_child(fn, *a):
    """run fn(*a) in a forked child, return its (pickled) result"""
    r, w = os.pipe()
    pid = os.fork()
    if pid == 0:
        try:
            os.close(r)
            out = fn(*a)
            with os.fdopen(w, "wb") as f:
                pickle.dump(out, f)
        finally:
            os._exit(0)
    os.close(w)
    with os.fdopen(r, "rb") as f:
        data = f.read()
    os.waitpid(pid, 0)
    return pickle.loads(data) if data else None


def run_history_child(history):
    return [execute(s) for s in history]


def corrupt(spec, rng):
    """failing variants: parse / solve / trace / run time"""
    s = json.loads(json.dumps(spec))
    k = rng.choice(["parse", "solve", "trace", "run"])
    if k == "parse":
        s["desc"] = s["desc"] + rng.choice([" (", " ]", " -> ->", " ~"])
    elif k == "solve":
        arrs = [i for i, a in enumerate(s["args"]) if a[0] == "arr" and np.ndim(a[1]) > 0]
        if arrs:
            i = rng.choice(arrs)
            a = np.array(s["args"][i][1])
            s["args"][i][1] = np.concatenate([a, a], axis=0).tolist()
    elif k == "trace":
        s["backend"] = "numpy.einsum"
    else:
        fs = [i for i, a in enumerate(s["args"]) if a[0] == "arr" and np.ndim(a[1]) > 0]
        if fs:
            i = rng.choice(fs)
            s["args"][i] = ("factory", np.zeros(np.shape(s["args"][i][1]) + (2,)).tolist(), "float64")   # wrong shape at run time
            s["kwargs"].update({})
    s["corrupted"] = k
    return s


def solve_spec(c, rng):
    fn = rng.choice(["solve_shapes", "solve_axes", "matches"])
    desc = c.desc.split(" -> ")[0]
    if fn == "matches":
        desc = desc.split(", ")[0]
        args = [("arr", np.asarray(c.arrays[0]).tolist(), str(np.asarray(c.arrays[0]).dtype))]
    else:
        args = [("arr", np.asarray(a).tolist(), str(np.asarray(a).dtype)) for a in c.arrays]
    return {"fn": fn, "desc": desc, "args": args, "kwargs": {k: ("int", v) for k, v in c.size_kwargs().items()}, "graph": False, "backend": None, "blocks": []}


def sequence_kw_family(rng):
    """one call with per-repetition sizes, the sizes given as equal-valued sequences of different kinds (tuple / list / int, float
    and bool arrays / tuple of floats): equal under ==, different for einx"""
    n = rng.randint(1, 3)
    inner = [rng.choice([1, 2, 3]) for _ in range(n)]
    outer = [rng.choice([1, 2]) for _ in range(n)]
    x = np.arange(int(np.prod([i * o for i, o in zip(inner, outer)]))).reshape([i * o for i, o in zip(inner, outer)])
    fn, desc = rng.choice([("id", "(a b)... -> a... b..."), ("id", "(a b)... -> b... a..."), ("sum", "(a [b])..."), ("solve_axes", "(a b)...")])
    kinds = ["tuple", "list", "arr_i", "arr_i32", "arr_f", "tuple_f"] + (["arr_b"] if all(i == 1 for i in inner) else [])
    out = []
    for kind in rng.sample(kinds, rng.randint(3, len(kinds))):
        out.append({"fn": fn, "desc": desc, "args": [("arr", x.tolist(), str(x.dtype))], "kwargs": {"b": (kind, inner)}, "graph": False,
                    "backend": None, "blocks": []})
    out.append(dict(out[0]))
    return out


def adapter_history(rng):
    """several adapted numpy reductions (their generated code refers to the numpy function as a constant) used in turns on the same
    data: every repetition returns what its first call returned"""
    a, b = rng.choice([2, 3]), rng.choice([3, 4])
    x = (np.arange(a * b).reshape(a, b) - rng.randint(0, 6))
    desc = rng.choice(["a [b]", "[a] b", "a [b] -> a"])
    names = rng.sample(["sum", "max", "min", "prod"], 3)
    order = [names[0], names[1], names[0], names[2], names[1], names[0], names[2]]
    return [{"fn": "adapt:" + nme, "desc": desc, "args": [("arr", x.tolist(), str(x.dtype))], "kwargs": {}, "graph": False, "backend": None, "blocks": []}
            for nme in order]


def typed_scalar_history(rng):
    """the same call with a size / option that compares equal but has another type - in both orders (int first, bool first, float
    in between): every call is treated as if it were the first"""
    x = np.arange(6).reshape(1, 6) if rng.random() < 0.5 else np.arange(6).reshape(6, 1)
    which = rng.choice(["size", "shift"])
    vals = [("int", 1), ("bool", True), ("float", 1.0), ("npint", 1)]
    rng.shuffle(vals)
    vals = vals + [vals[0]]
    out = []
    for kind, v in vals:
        if which == "size":
            desc = "(a b) c -> a b c" if x.shape[0] == 1 else "c (a b) -> c a b"
            out.append({"fn": "id", "desc": desc, "args": [("arr", x.tolist(), str(x.dtype))], "kwargs": {"a": (kind, v)}, "graph": False, "backend": None, "blocks": []})
        else:
            out.append({"fn": "roll", "desc": "a [b]", "args": [("arr", x.tolist(), str(x.dtype))], "kwargs": {"shift": (kind, v)}, "graph": rng.random() < 0.5,
                        "backend": None, "blocks": []})
    return out


def signed_zero_history(rng):
    """an option that differs from an earlier one only in the sign of zero (0.0 == -0.0, equal hashes) - in both orders, also as
    graph text: every call is treated as if it were the first"""
    x = np.arange(1, 4).astype("float64")
    vals = [0.0, -0.0] if rng.random() < 0.5 else [-0.0, 0.0]
    vals = vals + [vals[0], 2.0, -2.0]
    g = rng.random() < 0.3
    return [{"fn": "adaptel:copysign", "desc": "a, a -> a", "args": [("arr", x.tolist(), "float64"), ("arr", x.tolist(), "float64")],
             "kwargs": {"s": ("float", v)}, "graph": g, "backend": None, "blocks": []} for v in vals]


def keyword_order_history(rng):
    """the same call with its keyword options written in another order (a dict of keywords compares equal whatever its order): the
    result and the graph=True text are those of a first call"""
    x = np.arange(1, 4).astype("float64")
    orders = [["scale", "offset"], ["offset", "scale"]]
    rng.shuffle(orders)
    g = True
    return [{"fn": "adaptel:two_options", "desc": "a, a -> a", "args": [("arr", x.tolist(), "float64"), ("arr", x.tolist(), "float64")],
             "kwargs": {"scale": ("float", 2.0), "offset": ("float", 3.0)}, "kw_order": o, "graph": g, "backend": None, "blocks": []} for o in orders + [orders[0]]]


def where_keyword_history(rng):
    """tensors passed by keyword, written in another order than in an earlier call of the same signature"""
    n = rng.choice([3, 4])
    cond = [bool(rng.getrandbits(1)) for _ in range(n)]
    a, b = list(range(1, n + 1)), [10 * v for v in range(1, n + 1)]
    orders = [["x", "y"], ["y", "x"]]
    rng.shuffle(orders)
    return [{"fn": "where:keywords", "desc": "i, i, i -> i", "args": [("arr", cond, "bool"), ("arr", a, "int64"), ("arr", b, "int64")], "kwargs": {},
             "tensor_kw_order": o, "graph": False, "backend": None, "blocks": []} for o in orders + [orders[0]]]


def transient_failure_history(rng):
    """a call that fails for a reason outside its arguments (warnings turned into errors while it is traced), then the same call
    under normal conditions: "a call that raised leaves no trace that alters later calls" """
    a, b = rng.choice([2, 3]), rng.choice([2, 4])
    x = np.arange(a * b).reshape(a, b)
    op = rng.choice(["sum", "max", "prod"])
    base = {"fn": op, "desc": "a [b]", "args": [("arr", x.tolist(), "int64")], "kwargs": {"keepdims": ("bool", True)}, "graph": False, "backend": None, "blocks": []}
    # (a deprecation warning is issued while a call is traced, i.e. once per signature: the failing call comes first)
    return [dict(base, warnings_as_errors=True), dict(base), dict(base, graph=True)]


def gen_history(rng):
    base = [gencalls.gen_call(rng) for _ in range(rng.randint(2, 4))]
    h = []
    if rng.random() < 0.5:
        h.extend(sequence_kw_family(rng))
    for c in base:
        variants = [spec_of_call(c, rng)]
        variants.append(spec_of_call(c, rng, graph=True))
        variants.append(spec_of_call(c, rng, kwmode=rng.choice(["float", "npint", "bool"])))
        variants.append(spec_of_call(c, rng, argmode=rng.choice(["factory", "scalar"])))
        variants.append(spec_of_call(c, rng, backend=rng.choice(["numpy", "numpy.numpylike", "numpy.einsum"])))
        variants.append(spec_of_call(c, rng, blocks=rng.choice([["numpy.numpylike"], ["numpy", "numpy.einsum"], ["numpy.numpylike", "numpy"]])))
        outer = rng.choice([["numpy", "numpy.einsum"], ["numpy.numpylike", "numpy"], ["numpy.einsum", "numpy.numpylike"], ["numpy.einsum"]])
        variants.append(spec_of_call(c, rng, graph=rng.random() < 0.7, blocks=outer, closed_inner=[rng.choice(outer + ["numpy"])]))
        cands = [i for i, a in enumerate(c.arrays) if np.asarray(a).dtype.kind in "if" and (i > 0 or c.family != "update_at")]
        if cands and c.family not in ("get_at", "update_at"):
            i = rng.choice(cands)
            for kind in rng.sample(["plain", "named", "kwargs", "sig"], 2):
                variants.append(spec_of_call(c, rng, fkind=kind, fpos=i))
        variants.append(corrupt(spec_of_call(c, rng), rng))
        if c.family == "reduce" and c.op in ("sum", "max", "min", "prod") and not c.extra_kwargs and np.asarray(c.arrays[0]).ndim > 0:
            # the same reduction through adapted numpy functions, interleaved: compiled code of one must not pick up another's function
            for name in rng.sample(["sum", "max", "min", "prod"], 3) + [c.op]:
                sp = spec_of_call(c, rng)
                sp["fn"] = "adapt:" + name
                variants.append(sp)
        if "[" in c.desc and "->" in c.desc and c.family in ("reduce", "dot"):
            # the same call written without brackets (einx places them), followed by other operations on that very text
            bare = c.desc.replace("[", "").replace("]", "")
            sp = spec_of_call(c, rng)
            sp["desc"] = bare
            variants.append(sp)
            for other in rng.sample(["flip", "softmax", "sort", "roll", "id", "sum", "max", "set_at"], 3):
                sp2 = spec_of_call(c, rng)
                sp2["desc"], sp2["fn"] = bare, other
                if other == "roll":
                    sp2["kwargs"]["shift"] = ("int", 1)
                variants.append(sp2)
            variants.append(dict(sp))
        # the same description text and arguments handed to other operations (mostly invalid for them): what one operation did
        # with a description must not change what another makes of it
        for other in rng.sample(["id", "sum", "max", "mean", "flip", "softmax", "sort", "add", "multiply", "dot", "argmax", "get_at", "set_at", "roll"], 2):
            if other != c.op:
                sp = spec_of_call(c, rng)
                sp["fn"] = other
                if other == "roll":
                    sp["kwargs"]["shift"] = ("int", 1)
                variants.append(sp)
        if c.family != "update_at":
            variants.append(solve_spec(c, rng))
        rng.shuffle(variants)
        h.extend(variants[: rng.randint(3, len(variants))])
        if rng.random() < 0.5:
            h.append(spec_of_call(c, rng))          # the plain call again, after its relatives
    rng.shuffle(h)
    return h[:30]


# ------------------------------------------------------------------ placeholders of tensor arguments: model vs _to_tracer / __eq__
def placeholder_pool():
    class Foreign:
        def __init__(self, shape):
            self.shape = tuple(shape)

    class Sub(np.ndarray):
        pass

    class CallA:
        def __call__(self, shape):
            return np.zeros(shape)

    class CallB:
        def __call__(self, shape):
            return np.zeros(shape)

    def f1(shape): return np.zeros(shape)                       # noqa: E704
    def f2(shape): return np.ones(shape)                        # noqa: E704
    def f3(shape, name): return np.zeros(shape)                 # noqa: E704
    def f4(name, shape): return np.zeros(shape)                 # noqa: E704
    def f5(shape, *, name=None): return np.zeros(shape)         # noqa: E704
    def f6(shape, name=None): return np.zeros(shape)            # noqa: E704
    def f7(shape, name="x"): return np.zeros(shape)             # noqa: E704
    def f8(shape, **kw): return np.zeros(shape)                 # noqa: E704
    def f9(shape, name: str = None): return np.zeros(shape)     # noqa: E704
    def f10(shape, name=1): return np.zeros(shape)              # noqa: E704
    def f11(shape, name=1.0): return np.zeros(shape)            # noqa: E704
    def f14(shape, table=np.arange(3)): return np.zeros(shape)          # noqa: E704
    def f15(shape, table=np.arange(3)): return np.zeros(shape)          # noqa: E704
    def f16(shape, table=np.arange(4)): return np.zeros(shape)          # noqa: E704
    def f12(shape, arg_index=None, name=None): return np.zeros(shape)   # noqa: E704
    def f13(shape, name=None, arg_index=None): return np.zeros(shape)   # noqa: E704
    pool = [Foreign(()), Foreign((2,)), Foreign((2, 3)), Foreign((3, 2)), Foreign((2, 3)),
            np.zeros(()), np.zeros((2,)), np.zeros((2, 3)), np.ones((2, 3), "int32"), np.zeros((3, 2)), np.zeros((1,)), np.zeros((2, 3)).view(Sub),
            np.zeros((2, 3)).T, 1, 2, 1.0, True, np.float32(1), np.int64(1), np.bool_(True), np.float64(1),
            f1, f2, f3, f4, f5, f6, f7, f8, f9, f10, f11, f12, f13, f14, f15, f16, (lambda shape: 0), (lambda shape, name=None: 0), CallA(), CallA(), CallB(), int, np.zeros, len]
    stub = __import__("types").SimpleNamespace(is_supported_tensor=lambda x: isinstance(x, Foreign), get_shape=lambda x: tuple(x.shape))
    return pool, stub


def placeholder_correspondence(ctx):
    """the Gallina model of the placeholders (rows of _to_tracer and the attributes __eq__ compares, both regenerated) against the
    real _to_tracer / == / hash on every pair of a pool of arguments of every kind"""
    import inspect
    try:
        from einx._src.frontend import api as eapi
        pool, stub = placeholder_pool()
        phs = [eapi._to_tracer(eapi.TensorArg(x), stub, name="argument") for x in pool]
    except Exception as e:
        ctx.tie_breaks.append(f"placeholder correspondence: _to_tracer could not be driven from the outside: {type(e).__name__}: {e}")
        return
    types_seen, defaults_seen = [], []

    def ident(lst, x, eq):
        for i, y in enumerate(lst):
            if eq(x, y):
                return i
        lst.append(x)
        return len(lst) - 1

    def model_arg(x):
        if stub.is_supported_tensor(x):
            kind, shape = "native", list(x.shape)
        elif isinstance(x, np.ndarray):
            kind, shape = "ndarray", list(x.shape)
        elif eapi._is_scalar(x):
            kind, shape = "scalar", []
        else:
            kind, shape = "callable", []
        params = []
        if kind == "callable":
            try:
                sig = inspect.signature(x)
            except ValueError:
                sig = inspect.signature(lambda shape: None)
            for nme, prm in sig.parameters.items():
                # defaults and annotations are compared as frozen values: structurally, numbers together with their type
                d = ident(defaults_seen, prm.default, lambda a, b: a is b or (type(a) is type(b) and type(a) is not type and repr(a) == repr(b)))
                an = ident(defaults_seen, prm.annotation, lambda a, b: a is b or (type(a) is type(b) and type(a) is not type and repr(a) == repr(b)))
                params.append(f"{nme}.{int(prm.kind)}.{d}.{an}")
            params.sort()       # a dict of parameters compares without regard to order; einx only tests membership and kind
        return [kind, shape, ident(types_seen, type(x), lambda a, b: a is b), params]
    margs = [model_arg(x) for x in pool]
    pairs = [(i, j) for i in range(len(pool)) for j in range(len(pool))]
    m = common.Model()
    outs = m.batch([common.sx(["tracerkey_eq", [margs[i], margs[j]]]) for i, j in pairs])
    n_eq = 0
    for (i, j), o in zip(pairs, outs):
        try:
            real = bool(phs[i] == phs[j])
        except Exception as e:        # comparing two keys must not fail (it happens on every cached call)
            ctx.report({"kind": "placeholder_comparison_raises", "exc": type(e).__name__}, {"args": [repr(pool[i])[:80], repr(pool[j])[:80]], "message": str(e)[:200]})
            continue
        n_eq += real
        cls = [type(phs[i]).__name__ == "ConvertibleTensor", type(phs[j]).__name__ == "ConvertibleTensor"]
        if o == "none" or o[0] not in ("T", "F"):
            ctx.report({"kind": "placeholder_model_has_no_row"}, {"args": [repr(pool[i])[:80], repr(pool[j])[:80]], "model": o})
            continue
        if (o[0] == "T") != real or [o[1] == "T", o[2] == "T"] != cls:
            ctx.report({"kind": "placeholder_equality_differs_from_model", "real": real},
                       {"args": [repr(pool[i])[:80], repr(pool[j])[:80]], "model": o, "real": real, "classes": cls, "model_args": [margs[i], margs[j]]})
        if i == j:
            try:
                hash(phs[i])        # (equal placeholders with different hashes only make the cache miss: not a C06 matter)
            except Exception as e:
                ctx.report({"kind": "placeholder_not_hashable", "exc": type(e).__name__}, {"args": [repr(pool[i])[:80]]})
    ctx.coverage["placeholder_pairs_model_vs_impl"] = {"pairs": len(pairs), "equal_pairs": n_eq, "pool": len(pool),
                                                       "kinds": {k: sum(1 for a in margs if a[0] == k) for k in ("native", "ndarray", "scalar", "callable")}}


def _cold(spec):
    return in_child(execute, spec)


def _warm(history):
    return in_child(run_history_child, history)


def run(ctx):
    import einx  # noqa: F401   (imported, never called in this process)
    import sympy  # noqa: F401  (einx imports it lazily on the first solve; pre-loading modules does not touch einx state)
    import gc
    gc.collect()
    gc.freeze()
    placeholder_correspondence(ctx)
    n = 22 if ctx.tier == "quick" else 220
    hs = [gen_history(ctx.rng)[: (14 if ctx.tier == "quick" else 30)] for _ in range(n)]
    hs += [adapter_history(ctx.rng) for _ in range(3 if ctx.tier == "quick" else 40)]
    hs += [typed_scalar_history(ctx.rng) for _ in range(4 if ctx.tier == "quick" else 40)]
    hs += [signed_zero_history(ctx.rng) for _ in range(2 if ctx.tier == "quick" else 8)]
    hs += [keyword_order_history(ctx.rng) for _ in range(3 if ctx.tier == "quick" else 10)]
    hs += [where_keyword_history(ctx.rng) for _ in range(3 if ctx.tier == "quick" else 10)]
    hs += [transient_failure_history(ctx.rng) for _ in range(3 if ctx.tier == "quick" else 10)]
    keys = {}

    def alone(sp):
        # the reference for a call is the call itself inside its open with-blocks; blocks that were opened and closed again
        # before it are history and must not matter
        return {k: v for k, v in sp.items() if k != "closed_inner"}
    for h in hs:
        for sp in h:
            keys.setdefault(json.dumps(alone(sp), sort_keys=True), alone(sp))
    # forked children that run their first einx call are page-fault bound and do not scale over cores here: two workers only
    klist = list(keys)
    cold = dict(zip(klist, common.pmap(_cold, [keys[k] for k in klist], procs=2)))
    warm = common.pmap(_warm, hs, procs=2)
    ncalls = 0
    outcome_hist = {}
    for h, w in zip(hs, warm):
        ncalls += len(h)
        if w is None:
            ctx.report({"kind": "history_process_crashed"}, {"history": h[:3]})
            continue
        for k, sp in enumerate(h):
            c = cold[json.dumps(alone(sp), sort_keys=True)]
            o = w[k][0] if w[k][0] != "exc" else w[k][1]
            outcome_hist[o] = outcome_hist.get(o, 0) + 1
            if c != w[k]:
                ctx.report({"kind": "outcome_depends_on_history", "warm": o,
                            "cold": c[0] if c and c[0] != "exc" else (c[1] if c else "crash"), "fn": sp["fn"],
                            "variant": sp.get("corrupted", "plain"),
                            "float_size": any(v[0] == "float" for v in sp["kwargs"].values())},
                           {"call": sp, "index": k, "warm": w[k], "cold": c, "history": h[:k]})
        ctx.distinct.add(json.dumps(h, sort_keys=True, default=str)[:3000])
    for h in hs[:2]:
        ctx.sample([{k: s[k] for k in ("fn", "desc", "kwargs", "graph", "backend", "blocks")} for s in h[:6]])
    ctx.coverage.update({
        "evaluations": ncalls + len(klist), "traces_validated_against_impl": len(hs),
        "rule": "histories of <= 14 (quick) / 30 calls; each distinct call also executed alone in a pristine forked interpreter; "
                "distinct_nontrivial = distinct histories",
        "input_distribution": {"histories": len(hs), "calls": ncalls, "distinct_calls_run_cold": len(klist), "warm_outcomes": outcome_hist},
    })


def replay(ctx, path):
    data = json.load(open(path))
    if "call" not in data:
        print(json.dumps(data)[:2000])
        return 1
    import einx  # noqa: F401
    import sympy  # noqa: F401
    h = data["history"] + [data["call"]]
    warm = in_child(run_history_child, h)
    cold = in_child(execute, {k: v for k, v in data["call"].items() if k != "closed_inner"})
    print("call:", json.dumps(data["call"])[:800])
    print("after history:", warm[-1], " alone:", cold)
    if warm[-1] != cold:
        print(f"VIOLATION property=C06 replay={path}")
        return 1
    return 0
