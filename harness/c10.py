"""C10 - concurrent use from several threads behaves like some serial order.

A deterministic scheduler runs 2-3 real threads, each executing a short program of registry
operations (with-block enter/exit, lookups that trigger first-use registration) on a fresh
BackendRegistry; `sys.settrace` stops a thread before every source line of
einx/_src/frontend/backend.py and a schedule (list of thread ids) decides who moves next (threads
blocked on the registry lock are skipped).  The per-thread results and the final registry state
must equal those of SOME interleaving of the whole operations, evaluated by the extracted Gallina
registry model (serial specification).  Props/C10.v proves that with every state-replacing method
under the lock all schedules are serialisable."""
import itertools
import json
import sys
import threading
import time
import types

import numpy as np

from . import c11, common, gencalls
from .common import sx

BACKEND_FILE = "frontend/backend.py"


class Stuck(Exception):
    pass


def run_schedule(programs, schedule, make_env, max_steps=200000):
    """programs: list of lists of ops (c11 op format); returns (results per thread, final, steps, trace)"""
    n = len(programs)
    env = make_env()
    go = [threading.Semaphore(0) for _ in range(n)]
    arrived = [threading.Event() for _ in range(n)]
    done = [False] * n
    results = [[] for _ in range(n)]

    def make_tracer(i):
        def local(frame, event, arg):
            if event == "line":
                arrived[i].set()
                go[i].acquire()
            return local

        def glob(frame, event, arg):
            if event == "call" and frame.f_code.co_filename.endswith(BACKEND_FILE):
                return local
            return None
        return glob

    def worker(i):
        go[i].acquire()
        sys.settrace(make_tracer(i))
        try:
            for op in programs[i]:
                results[i].append(env["execute"](op))
        finally:
            sys.settrace(None)
            done[i] = True
            arrived[i].set()

    ths = [threading.Thread(target=worker, args=(i,), daemon=True) for i in range(n)]
    for t in ths:
        t.start()
    waiting = set(range(n))      # threads stopped at a preemption point (or not started)
    running = set()              # released but not yet arrived (blocked on a lock, or still executing)
    sched = list(schedule)
    steps = 0
    trace = []
    while not all(done):
        steps += 1
        if steps > max_steps:
            raise Stuck("schedule did not finish")
        for i in list(running):
            if arrived[i].is_set():
                running.discard(i)
                if not done[i]:
                    waiting.add(i)
        cands = [i for i in sorted(waiting) if not done[i]]
        if not cands:
            if running:
                import time as _t
                t0 = _t.time()
                while not any(arrived[i].is_set() for i in running):
                    if _t.time() - t0 > 10.0:
                        raise Stuck("all threads blocked")
                    _t.sleep(0.002)
                continue
            break
        t = None
        while sched:
            c = sched.pop(0)
            if c in cands:
                t = c
                break
        if t is None:
            t = cands[0]
        trace.append(t)
        waiting.discard(t)
        arrived[t].clear()
        go[t].release()
        if arrived[t].wait(0.03):
            if not done[t]:
                waiting.add(t)
        else:
            running.add(t)       # blocked on the lock held by a paused thread: let others move
    for t in ths:
        t.join(2.0)
    return results, env["final"](), steps, trace


def make_registry_env(h):
    """fresh registry with the declarations of history h applied; ops executed like c11.run_impl"""
    def make():
        import einx._src.frontend.backend as B
        from einx.errors import BackendResolutionError, ImportBackendError
        reg = B.BackendRegistry()
        classes = {}
        objs = {}

        def cls(fw):
            return np.ndarray if fw == c11.NUMPY_MOD else classes.setdefault(fw, type(f"T{fw}", (), {}))

        def obj(b):
            if b["id"] not in objs:
                c = cls(b["fw"])
                objs[b["id"]] = B.Backend(ops={}, name=c11.bname(b["name"]), priority=b["decl_prio"], optimizations=[], compiler=None,
                                          is_supported_tensor=lambda t, c=c: isinstance(t, c), get_shape=None)
            return objs[b["id"]]

        for b in h["backends"]:
            obj(b)                     # create every backend object before the threads start (obj() is not thread-safe)
        for m in range(2, 60):
            sys.modules.pop(c11.modname(m), None)
        for m in h["mods"]:
            if m != c11.NUMPY_MOD:
                sys.modules[c11.modname(m)] = types.ModuleType(c11.modname(m))
        for o in h["decls"]:
            if o[0] == "register":
                reg.register(obj(o[1]))
            else:
                b = o[2]
                if b["valid"]:
                    reg.register_on_import(c11.modname(o[1]), c11.bname(b["name"]), (lambda b=b: obj(b)))
                else:
                    def boom():
                        raise RuntimeError("factory fails")
                    reg.register_on_import(c11.modname(o[1]), c11.bname(b["name"]), boom)

        def execute(o):
            try:
                if o == "exit":
                    raise AssertionError("bare exit not used")
                if o[0] == "enter":
                    reg.enter(obj(o[1]))
                    return "none"
                if o[0] == "exitb":
                    reg.exit(obj(o[1]))
                    return "none"
                if o[0] == "import":
                    sys.modules[c11.modname(o[1])] = types.ModuleType(c11.modname(o[1]))       # what `import framework` does to sys.modules
                    return "none"
                a = o[1]
                arg = None if a == "none" else (c11.bname(a[1]) if a[0] == "name" else obj(a[1]))
                tensors = [1 if t == "scalar" else (np.zeros(2) if t[1] == c11.NUMPY_MOD else cls(t[1])()) for t in o[2]]
                b = reg.get(arg, tensors)
                return ["backend", b.name]
            except ValueError:
                return "ValueError"
            except BackendResolutionError:
                return "BackendResolutionError"
            except BaseException as e:  # noqa: BLE001
                return "FAIL:" + type(e).__name__

        def final():
            return [[b.name for b in reversed(reg.state.use_stack)], sorted(reg.state.name_to_backend.keys())]

        return {"execute": execute, "final": final}
    return make


def gen_case(rng):
    h = c11.gen_history(rng)
    decls = [o for o in h["ops"] if o != "exit" and o[0] in ("register", "register_on_import")]
    valid = [b for b in h["backends"] if b["valid"]]
    if not valid:
        return None
    nthreads = rng.choice([2, 2, 3])
    progs = []
    for _ in range(nthreads):
        p = []
        r = rng.random()
        look = ["lookup", "none", [["t", c11.NUMPY_MOD]]] if rng.random() < 0.7 else ["lookup", ["name", rng.choice([b["name"] for b in h["backends"]])], []]
        if r < 0.5:
            b = rng.choice(valid)
            p = [["enter", b]] + ([look] if rng.random() < 0.6 else []) + [["exitb", b]]
        elif r < 0.8:
            p = [look] + ([look] if rng.random() < 0.3 else [])
        else:
            b, b2 = rng.choice(valid), rng.choice(valid)
            p = [["enter", b], ["enter", b2], ["exitb", b2], ["exitb", b]]
        progs.append(p[:3] if len(p) > 3 and nthreads == 3 else p)
    return {"mods": h["mods"], "decls": decls, "backends": h["backends"], "programs": progs}


def import_race_cases():
    """one thread looks a backend up by name (the name is not registered yet: the registry rescans sys.modules) while another
    thread imports modules; the lookup is stopped after every k-th source line and the other thread runs to its end"""
    b = {"id": 0, "name": 20, "prio": 0, "fw": 2, "valid": True, "decl_prio": 0}
    nb = {"id": 1, "name": 0, "prio": -1, "fw": c11.NUMPY_MOD, "valid": True, "decl_prio": -1}
    out = []
    for imports in ([["import", 2]], [["import", 50], ["import", 2]], [["import", 51]]):
        out.append({"mods": [c11.NUMPY_MOD], "decls": [["register", nb], ["register_on_import", 2, b]], "backends": [b, nb],
                    "programs": [[["lookup", ["name", 20], []]], imports]})
    return out


def serial_orders(progs, limit=3000):
    """all interleavings of the programs (as sequences of thread ids), program order respected"""
    out = []

    def rec(pos, acc):
        if len(out) >= limit:
            return
        if all(pos[i] == len(progs[i]) for i in range(len(progs))):
            out.append(tuple(acc))
            return
        for i in range(len(progs)):
            if pos[i] < len(progs[i]):
                pos[i] += 1
                acc.append(i)
                rec(pos, acc)
                acc.pop()
                pos[i] -= 1
    rec([0] * len(progs), [])
    return out


def model_serial(ctx_model, case):
    """all serial interleavings evaluated by the registry model -> list of (order, per-thread results, final)"""
    byid = {b["id"]: b for b in case["backends"]}
    orders = list(serial_orders(case["programs"]))
    lines = []
    for order in orders:
        pos = [0] * len(case["programs"])
        ops = list(case["decls"])
        for t in order:
            o = case["programs"][t][pos[t]]
            pos[t] += 1
            ops.append(o)
        lines.append(sx(c11.wire({"mods": case["mods"], "ops": ops})))
    outs = ctx_model.batch(lines)
    res = []
    nd = len(case["decls"])
    for order, m in zip(orders, outs):
        per = [[] for _ in case["programs"]]
        for t, r in zip(order, m[0][nd:]):
            if isinstance(r, list) and r[0] == "backend":
                per[t].append(["backend", c11.bname(byid[int(r[1])]["name"])])
            elif r == "assert":
                per[t].append("FAIL")
            else:
                per[t].append(r)
        final = [[c11.bname(byid[int(i)]["name"]) for i in m[1]], sorted({c11.bname(int(n)) for n in m[2]})]
        res.append((order, per, final))
    return res


def norm(results):
    return [["FAIL" if isinstance(r, str) and r.startswith("FAIL") else r for r in per] for per in results]


def schedules_for(case, rng, k):
    n = len(case["programs"])
    out = []
    for _ in range(k):
        L = rng.randint(5, 120)
        style = rng.random()
        if style < 0.4:      # few context switches
            s = []
            t = rng.randrange(n)
            while len(s) < L:
                s.extend([t] * rng.randint(1, 40))
                t = rng.randrange(n)
        else:
            s = [rng.randrange(n) for _ in range(L)]
        out.append(s)
    return out


def run(ctx):
    import einx  # noqa: F401
    quick = ctx.tier == "quick"
    ncases = 25 if quick else 300
    nsched = 12 if quick else 60
    total = 0
    fails = 0
    explained = 0
    stuck_runs = 0
    for _ in range(ncases):
        if stuck_runs >= 3:
            break        # threads that block each other for good: every further schedule would only wait for its time limit
        case = None
        while case is None:
            case = gen_case(ctx.rng)
        serial = model_serial(ctx.model, case)
        allowed = {json.dumps([per, final]) for _, per, final in serial}
        make = make_registry_env(case)
        for s in schedules_for(case, ctx.rng, nsched):
            if stuck_runs >= 3:
                break
            results = None
            for attempt in range(3):
                try:
                    results, final, steps, trace = run_schedule(case["programs"], s, make)
                    break
                except Stuck as e:
                    err = str(e)
            if results is None:
                ctx.report({"kind": "schedule_stuck"}, {"case": case, "schedule": s, "detail": err})
                stuck_runs += 1
                continue
            total += 1
            got = json.dumps([norm(results), final])
            if any(isinstance(r, str) and r.startswith("FAIL") for per in results for r in per):
                fails += 1
            if got not in allowed:
                ctx.report({"kind": "not_serialisable", "failure": sorted({r for per in results for r in per if isinstance(r, str) and r.startswith("FAIL")})[:1]},
                           {"case": case, "schedule": trace, "observed": [results, final], "some_serial_outcomes": [json.loads(a) for a in list(allowed)[:3]]})
            elif any(isinstance(r, str) and r.startswith("FAIL") for per in results for r in per):
                explained += 1
            ctx.distinct.add(json.dumps([case["programs"], trace]))
        if len(ctx.samples) < 3:
            ctx.sample({"programs": case["programs"], "serial_orders": len(serial)})
    # a lookup that rescans sys.modules, pre-empted at every k-th line by a thread that imports modules
    race_runs = 0
    for case in import_race_cases():
        if stuck_runs >= 6:
            break
        serial = model_serial(ctx.model, case)
        allowed = {json.dumps([per, final]) for _, per, final in serial}
        make = make_registry_env(case)
        for k in ([5, 10, 20, 28, 30, 32, 40, 60, 100, 200] if quick else list(range(1, 200))) + [400, 800, 1200]:
            sched_k = [0] * k + [1] * 40
            try:
                results, final, steps, trace = run_schedule(case["programs"], sched_k, make)
            except Stuck as e:
                ctx.report({"kind": "schedule_stuck"}, {"case": case, "schedule": sched_k, "detail": str(e)})
                stuck_runs += 1
                if stuck_runs >= 6:
                    break
                continue
            race_runs += 1
            total += 1
            if json.dumps([norm(results), final]) not in allowed:
                ctx.report({"kind": "not_serialisable", "failure": sorted({r for per in results for r in per if isinstance(r, str) and r.startswith("FAIL")})[:1]},
                           {"case": case, "schedule": trace[:2000], "observed": [results, final], "some_serial_outcomes": [json.loads(a) for a in list(allowed)[:3]]})
                break
    for m in range(2, 60):
        sys.modules.pop(c11.modname(m), None)
    callstats = run_call_mode(ctx)
    callstats["lookups_preempted_by_an_importing_thread"] = race_runs
    callstats.update(run_preemption_mode(ctx))
    ctx.coverage.update({
        "evaluations": total + callstats["call_mode_cases"], "traces_validated_against_impl": total,
        "rule": "programs of 2-3 threads x <= 4 registry operations; schedules = random thread choices at every source line of "
                "frontend/backend.py (bursty and uniform); part B: 2-3 threads x 1-2 whole einx calls (fresh descriptions: tracing, "
                "compilation and cache fill happen concurrently), one thread runs at a time and hands over after a chosen number of "
"function calls inside einx's source, every result compared with the same call executed alone in a private process; part C: "
                "exhaustive single pre-emption - a cached call stopped before EVERY source line of api.py / backend.py while another thread "
                "enters and leaves a with-block (and vice versa), and two first-time calls with several anonymous axes stopped at evenly "
                "spaced lines of the parser and before EVERY line of every einx function that assigns a module-level variable; "
                "distinct_nontrivial = distinct (programs, executed schedule)",
        "input_distribution": {**callstats, "cases": ncases, "schedules_per_case": nsched, "runs_with_a_failing_operation": fails,
                               "failures_explained_by_a_serial_order": explained},
    })


# ---------------------------------------------------------------------------------------------
# part B: whole calls (first-time tracing, compilation, cache fill) under controlled pre-emption
# ---------------------------------------------------------------------------------------------
def run_calls(programs, points, order_seed, backend_blocks=None):
    """programs[i] = list of (op, desc, arrays, kw); exactly one thread runs at a time; thread i hands over when the number of
    function calls it has made inside einx's source reaches one of points[i] (never while it holds the registry lock).
    -> per-thread list of ("ok", [arrays]) / ("exc", class, site, message)"""
    import random
    import einx
    import einx._src.frontend.backend as B
    src = common.REPO.rstrip("/") + "/einx/"
    n = len(programs)
    cond = threading.Condition()
    state = {"turn": 0, "done": [False] * n, "switches": 0}
    rnd = random.Random(order_seed)
    results = [[] for _ in range(n)]

    def lock_owned():
        try:
            return B.registry.use_lock._is_owned()
        except Exception:  # noqa: BLE001
            return False

    def hand_over(i, finished=False):
        with cond:
            if finished:
                state["done"][i] = True
            others = [j for j in range(n) if j != i and not state["done"][j]]
            if not others:
                return
            state["turn"] = rnd.choice(others)
            state["switches"] += 1
            cond.notify_all()
            if not finished:
                while state["turn"] != i:
                    cond.wait(20.0)

    def worker(i):
        with cond:
            while state["turn"] != i:
                cond.wait(20.0)
        count = [0]
        pts = set(points[i])

        def glob(frame, event, arg):
            if event == "call" and frame.f_code.co_filename.startswith(src):
                count[0] += 1
                if count[0] in pts and not lock_owned():
                    hand_over(i)
            return None
        sys.settrace(glob)
        try:
            for op, desc, arrays, kw in programs[i]:
                try:
                    r = getattr(einx, op)(desc, *[np.array(a) for a in arrays], **kw)
                    results[i].append(("ok", [np.asarray(x) for x in (r if isinstance(r, tuple) else (r,))]))
                except BaseException as e:  # noqa: BLE001
                    results[i].append(("exc", common.classify_exc(e), common.exc_site(e), str(e)[:300]))
        finally:
            sys.settrace(None)
            hand_over(i, finished=True)

    ths = [threading.Thread(target=worker, args=(i,), daemon=True) for i in range(n)]
    for t in ths:
        t.start()
    deadline = time.time() + 150.0           # (a case takes a few seconds; threads that wait for each other never finish)
    for t in ths:
        t.join(max(0.1, deadline - time.time()))
    stuck = any(t.is_alive() for t in ths)
    return results, state["switches"], stuck


def _call_case(item):
    programs, expected, points, order_seed = item
    import einx  # noqa: F401
    out = []
    results, switches, stuck = run_calls(programs, points, order_seed)
    if stuck:
        return switches, [({"kind": "threads_stuck"}, {"programs": [[(o, d) for o, d, _, _ in pr] for pr in programs], "points": points})]
    for i, (prog, res) in enumerate(zip(programs, results)):
        for j, ((op, desc, arrays, kw), r) in enumerate(zip(prog, res)):
            exp = expected[i][j]
            rec = {"thread": i, "op": op, "desc": desc, "kwargs": kw, "shapes": [list(np.shape(a)) for a in arrays], "points": points, "order_seed": order_seed,
                   "programs": [[{"op": o, "desc": d, "kwargs": k2, "inputs": [np.asarray(a).tolist() for a in ar]} for o, d, ar, k2 in pr] for pr in programs]}
            if r[0] == "exc":
                if exp[0] == "exc" and exp[1] == r[1]:
                    continue
                out.append(({"kind": "call_fails_under_concurrency", "exc": r[1], "site": r[2]}, {**rec, "message": r[3], "alone": exp[0] if exp[0] == "exc" else "value"}))
            elif exp[0] == "exc":
                out.append(({"kind": "call_succeeds_only_under_concurrency"}, rec))
            elif len(exp[1]) != len(r[1]) or any(not gencalls.matches(e, g) for e, g in zip(exp[1], r[1])):
                out.append(({"kind": "wrong_value_under_concurrency", "op": op}, {**rec, "expected": [np.asarray(e).tolist() for e in exp[1]][:1],
                                                                                  "observed": [np.asarray(g).tolist() for g in r[1]][:1]}))
    return switches, out


def alone_outcome(item):
    """the call executed alone in this (forked, otherwise unused) process"""
    op, desc, arrays, kw = item
    import einx
    try:
        r = common.with_alarm(60, getattr(einx, op), desc, *[np.array(a) for a in arrays], **kw)
        return ("ok", [np.asarray(x) for x in (r if isinstance(r, tuple) else (r,))])
    except BaseException as e:  # noqa: BLE001
        return ("exc", common.classify_exc(e), common.exc_site(e), str(e)[:300])


def gen_call_cases(rng, ncases):
    cases = []
    for _ in range(ncases):
        nthreads = rng.choice([2, 2, 3])
        pool = [gencalls.gen_call(rng) for _ in range(rng.randint(2, 4))]
        programs = []
        for _t in range(nthreads):
            prog = []
            for _k in range(rng.randint(1, 2)):
                c = rng.choice(pool)                       # the same call in several threads: concurrent fill of one cache entry
                prog.append((c.op, c.desc, c.arrays, {**c.size_kwargs(), **c.extra_kwargs}))
            programs.append(prog)
        points = []
        for _t in range(nthreads):
            k = rng.randint(1, 4)
            points.append(sorted({rng.randint(1, 3000) if rng.random() < 0.5 else rng.randint(1, 20000) for _ in range(k)}))
        cases.append((programs, points, rng.randrange(10 ** 6)))
    return cases


def run_call_mode(ctx):
    quick = ctx.tier == "quick"
    cases = gen_call_cases(ctx.rng, 120 if quick else 3000)
    # expected outcome of every distinct call: executed alone (one per forked process slot; the cache of that process is private)
    distinct = {}

    def key_of(it):
        return (it[0], it[1], json.dumps(it[3], sort_keys=True), str([(np.shape(a), str(np.asarray(a).dtype), np.asarray(a).tobytes()) for a in it[2]]))
    for programs, _, _ in cases:
        for prog in programs:
            for it in prog:
                distinct.setdefault(key_of(it), it)
    keys = list(distinct)
    alone = dict(zip(keys, common.pmap(alone_outcome, [distinct[k] for k in keys])))
    items = []
    for programs, points, seed in cases:
        expected = [[alone[key_of(it)] for it in prog] for prog in programs]
        items.append((programs, expected, points, seed))
    # in portions: when threads block each other for good, every further case would only wait for its time limit
    res, stuck = [], 0
    for i in range(0, len(items), 40):
        part = common.pmap(_call_case, items[i:i + 40], procs=8 if i == 0 else 4)
        res.extend(part)
        stuck += sum(1 for _, viol in part for tags, _ in viol if tags.get("kind") == "threads_stuck")
        if stuck >= 3:
            break
    cases = cases[:len(res)]
    switches = 0
    for (programs, points, seed), (sw, viol) in zip(cases, res):
        switches += sw
        for tags, payload in viol:
            ctx.report(tags, payload)
        ctx.distinct.add(json.dumps([[[o, d] for o, d, _, _ in pr] for pr in programs]) + str(points))
    return {"call_mode_cases": len(cases), "call_mode_context_switches": switches, "call_mode_distinct_calls": len(keys)}


# ---------------------------------------------------------------------------------------------
# part C: exhaustive single pre-emption (one thread is stopped before a chosen source line, the other runs to the end)
# ---------------------------------------------------------------------------------------------
_HOT = {}


_CONTAINER_CALLS = {"set", "dict", "list", "defaultdict", "OrderedDict", "deque", "Counter", "WeakKeyDictionary", "WeakValueDictionary", "WeakSet"}


def _is_container(v):
    import ast
    if isinstance(v, (ast.List, ast.Dict, ast.Set, ast.ListComp, ast.DictComp, ast.SetComp)):
        return True
    if isinstance(v, ast.Call):
        f = v.func
        name = f.id if isinstance(f, ast.Name) else (f.attr if isinstance(f, ast.Attribute) else None)
        return name in _CONTAINER_CALLS
    return False


def hot_codes():
    """code objects of einx functions that touch state shared by all threads, found in /repo's current source: functions that assign
    module-level variables (STORE_GLOBAL), that assign variables of an enclosing function (nonlocal: state of long-lived closures such
    as decorators), that read a module-level container of their module, or that use an attribute which some class defines as a
    class-level container (one object for all instances and threads)"""
    if "set" not in _HOT:
        import ast
        import dis
        import glob as _glob
        found = set()
        paths = _glob.glob(common.REPO.rstrip("/") + "/einx/**/*.py", recursive=True)
        class_attrs, module_containers, sources = set(), {}, {}
        for path in paths:
            try:
                sources[path] = open(path).read()
                tree = ast.parse(sources[path])
            except (SyntaxError, OSError):
                continue
            module_containers[path] = set()
            for node in tree.body:
                if isinstance(node, ast.Assign) and _is_container(node.value):
                    module_containers[path] |= {t.id for t in node.targets if isinstance(t, ast.Name)}
            for node in ast.walk(tree):
                if isinstance(node, ast.ClassDef):
                    for b in node.body:
                        if isinstance(b, ast.Assign) and _is_container(b.value):
                            class_attrs |= {t.id for t in b.targets if isinstance(t, ast.Name)}
                        elif isinstance(b, ast.AnnAssign) and b.value is not None and _is_container(b.value) and isinstance(b.target, ast.Name):
                            class_attrs.add(b.target.id)
        for path, text in sources.items():
            try:
                top = compile(text, path, "exec")
            except SyntaxError:
                continue
            todo = [top]
            while todo:
                co = todo.pop()
                todo.extend(c for c in co.co_consts if hasattr(c, "co_code"))
                if co is top:
                    continue
                for i in dis.get_instructions(co):
                    if (i.opname in ("STORE_GLOBAL", "DELETE_GLOBAL")
                            or (i.opname in ("STORE_DEREF", "DELETE_DEREF") and i.argval in co.co_freevars)
                            or (i.opname in ("LOAD_ATTR", "LOAD_METHOD", "STORE_ATTR") and i.argval in class_attrs)
                            or (i.opname in ("LOAD_GLOBAL", "LOAD_NAME") and i.argval in module_containers.get(path, ()))):
                        found.add((co.co_filename, co.co_name, co.co_firstlineno))
                        break
        _HOT["set"] = found
        _HOT["class_attrs"], _HOT["module_containers"] = sorted(class_attrs), {k: sorted(v) for k, v in module_containers.items() if v}
    return _HOT["set"]


def single_preemption(body_a, body_b, pause_index, suffixes, hot_only=False, pause_a=None, pause_line=None):
    """thread B runs body_b; before its pause_index-th source line inside the files named by [suffixes] it stops, thread A runs
    body_a to the end, B continues.  -> (result A, result B, number of such lines B executed)"""
    import einx._src.frontend.backend as B
    src = common.REPO.rstrip("/") + "/einx/"
    paused, a_done, b_finished = threading.Event(), threading.Event(), threading.Event()
    res = {}
    count = [0]

    def lock_owned():
        try:
            return B.registry.use_lock._is_owned()
        except Exception:  # noqa: BLE001
            return False

    def wrap(f):
        try:
            return f()
        except BaseException as e:  # noqa: BLE001
            return ("exc", common.classify_exc(e), common.exc_site(e), str(e)[:300])

    fired, seen_line = [False], [0]

    def local(frame, event, arg):
        if event == "line":
            count[0] += 1
            if pause_line is not None:
                # stop before the n-th execution of one particular source line
                if not fired[0] and frame.f_lineno == pause_line[1] and frame.f_code.co_filename.endswith(pause_line[0]):
                    seen_line[0] += 1
                    if seen_line[0] >= (pause_line[2] if len(pause_line) > 2 else 1) and not lock_owned():
                        fired[0] = True
                        paused.set()
                        a_done.wait(60.0)
            elif count[0] == pause_index and not lock_owned():
                paused.set()
                a_done.wait(60.0)
        return local

    hot = hot_codes() if hot_only else None

    def glob(frame, event, arg):
        co = frame.f_code
        fn = co.co_filename
        if event == "call" and fn.startswith(src):
            if hot is not None:
                return local if (fn, co.co_name, co.co_firstlineno) in hot else None
            if fn.endswith(suffixes):
                return local
        return None

    def run_b():
        sys.settrace(glob)
        try:
            res["b"] = wrap(body_b)
        finally:
            sys.settrace(None)
            paused.set()
            b_finished.set()

    count_a = [0]

    def local_a(frame, event, arg):
        if event == "line":
            count_a[0] += 1
            if count_a[0] == pause_a and not lock_owned():
                a_done.set()                 # B goes on to its end while A waits here
                b_finished.wait(60.0)
        return local_a

    def glob_a(frame, event, arg):
        co = frame.f_code
        if event == "call" and co.co_filename.startswith(src) and (co.co_filename, co.co_name, co.co_firstlineno) in hot:
            return local_a
        return None

    def run_a():
        paused.wait(120.0)
        if pause_a is not None and hot is not None:
            sys.settrace(glob_a)
        try:
            res["a"] = wrap(body_a)
        finally:
            sys.settrace(None)
            a_done.set()

    tb, ta = threading.Thread(target=run_b, daemon=True), threading.Thread(target=run_a, daemon=True)
    tb.start()
    ta.start()
    tb.join(60.0)
    ta.join(60.0)
    return res.get("a", ("exc", "STUCK", "", "")), res.get("b", ("exc", "STUCK", "", "")), count[0]


def _preempt_case(item):
    kind, k, pause = item
    import einx
    import einx._src.frontend.backend as B
    out = []

    def call(fn, desc, x, **kw):
        r = getattr(einx, fn)(desc, x, **kw)
        return ("ok", np.asarray(r))

    def call2(fn, desc, x, y, **kw):
        r = getattr(einx, fn)(desc, x, y, **kw)
        return ("ok", np.asarray(r))

    if kind in ("exit_during_call", "enter_during_call"):
        # a with-block is already open (or is opened) while the call of another thread is under way
        x = np.arange(12, dtype=np.float64).reshape(3, 4) + k
        einx.sum("a [b]", x)
        einx.sum("a [b]", x, backend="numpy.einsum")
        be = einx.backend.get("numpy.einsum")
        files = ("frontend/api.py", "frontend/backend.py")
        if kind == "exit_during_call":
            be.__enter__()

            def other():
                be.__exit__(None, None, None)
                return ("ok", None)
        else:
            def other():
                be.__enter__()
                return ("ok", None)
        ra, rb, n = single_preemption(other, lambda: call("sum", "a [b]", x), pause, files)
        if kind == "enter_during_call":
            try:
                be.__exit__(None, None, None)
            except BaseException as e:  # noqa: BLE001
                ra = ("exc", common.classify_exc(e), common.exc_site(e), str(e)[:300])
        exp = x.sum(axis=1)
        if rb[0] != "ok" or not np.allclose(rb[1], exp):
            out.append(({"kind": "call_fails_next_to_a_with_block", "exc": rb[1] if rb[0] == "exc" else "wrong value", "schedule": kind},
                        {"pause_before_line_event": pause, "files": list(files), "call": "einx.sum('a [b]', x)",
                         "other_thread": "leaves" if kind == "exit_during_call" else "enters" + " a with-block of numpy.einsum", "detail": str(rb)[:400]}))
        if ra[0] != "ok":
            out.append(({"kind": "with_block_fails_next_to_a_call", "exc": ra[1], "schedule": kind},
                        {"pause_before_line_event": pause, "files": list(files), "detail": str(ra)[:400]}))
        if len(B.registry.state.use_stack) != 0:
            out.append(({"kind": "with_stack_not_restored"}, {"pause_before_line_event": pause, "schedule": kind}))
            B.registry.state.use_stack.clear()
        return n, out
    if kind in ("with_vs_call", "call_vs_with"):
        x = np.arange(12, dtype=np.float64).reshape(3, 4) + k
        einx.sum("a [b]", x)                                  # the call below is served from the cache
        einx.sum("a [b]", x, backend="numpy.einsum")

        def with_block():
            with einx.backend.get("numpy.einsum"):
                pass
            return ("ok", None)

        def the_call():
            return call("sum", "a [b]", x)
        files = ("frontend/api.py", "frontend/backend.py")
        if kind == "with_vs_call":       # the call is stopped, the with-block runs in between
            ra, rb, n = single_preemption(with_block, the_call, pause, files)
            rcall, rwith = rb, ra
        else:                            # the with-block is stopped, the call runs in between
            ra, rb, n = single_preemption(the_call, with_block, pause, files)
            rcall, rwith = ra, rb
        exp = x.sum(axis=1)
        if rcall[0] != "ok" or not np.allclose(rcall[1], exp):
            out.append(({"kind": "call_fails_next_to_a_with_block", "exc": rcall[1] if rcall[0] == "exc" else "wrong value", "schedule": kind},
                        {"pause_before_line_event": pause, "files": list(files), "call": "einx.sum('a [b]', x)", "other_thread": "with einx.backend.get('numpy.einsum'): pass",
                         "detail": str(rcall)[:400]}))
        if rwith[0] != "ok":
            out.append(({"kind": "with_block_fails_next_to_a_call", "exc": rwith[1], "schedule": kind},
                        {"pause_before_line_event": pause, "files": list(files), "detail": str(rwith)[:400]}))
        if len(B.registry.state.use_stack) != 0:
            out.append(({"kind": "with_stack_not_restored"}, {"pause_before_line_event": pause, "schedule": kind}))
            B.registry.state.use_stack.clear()
        return n, out
    if kind == "first_time_calls_every_line":
        # a first-time call (parsed, solved, traced, compiled, cached anew) is stopped before one source line anywhere in einx;
        # another first-time call of the same operation with another signature runs to its end in between; afterwards both calls
        # are repeated (now cache hits) - everything must be what the calls return alone
        # the two calls differ in description and sizes, and their compiled code holds their sizes as literals: neither can stand in
        # for the other
        n1, n2 = 2 + 2 * k, 3 + 2 * k
        x, y = np.arange(n1 * 6, dtype=np.int64).reshape(n1, 6), np.arange(n2 * 6, dtype=np.int64).reshape(n2, 6) + 1
        c1 = ("a (b c) -> c b", x, {"b": 2}, x.reshape(n1, 2, 3).sum(axis=0).T)
        c2 = ("a (b c) -> a c", y, {"b": 3}, y.reshape(n2, 3, 2).sum(axis=1))
        ra, rb, n = single_preemption(lambda: call("sum", c2[0], c2[1], **c2[2]), lambda: call("sum", c1[0], c1[1], **c1[2]), None, ("",),
                                      pause_line=tuple(pause))
        later = []
        for c in (c2, c1, c2):
            try:
                later.append(call("sum", c[0], c[1], **c[2]))
            except BaseException as e:  # noqa: BLE001
                later.append(("exc", common.classify_exc(e), common.exc_site(e), str(e)[:300]))
        for who, r, c in (("stopped thread", rb, c1), ("other thread", ra, c2), ("repeat afterwards", later[0], c2), ("repeat afterwards", later[1], c1),
                          ("repeat afterwards", later[2], c2)):
            exp = c[3]
            if r[0] != "ok" or r[1].shape != exp.shape or not np.array_equal(r[1], exp):
                out.append(({"kind": "first_time_call_fails_next_to_another", "exc": r[1] if r[0] == "exc" else "wrong value", "who": who},
                            {"stopped_before": list(pause), "call": f"einx.sum('{c[0]}', array of shape {c[1].shape}, b={c[2]['b']})", "detail": str(r)[:400]}))
        return n, out
    if kind == "identical_failing_calls_every_line":
        # two threads make the SAME first-time call, and it fails while it is traced (7 is no multiple of b = 2): one is stopped before a
        # source line, the other runs to its end in between; each must get the error the call raises alone - also when repeated
        n1 = 2 + 2 * k
        x = np.arange(n1 * 7, dtype=np.int64).reshape(n1, 7)

        def failing():
            return call("sum", "a (b c) -> c b", x, b=2)
        ra, rb, n = single_preemption(failing, failing, None, ("",), pause_line=tuple(pause))
        later = []
        for _ in range(2):
            try:
                later.append(failing())
            except BaseException as e:  # noqa: BLE001
                later.append(("exc", common.classify_exc(e), common.exc_site(e), str(e)[:300]))
        for who, r in (("stopped thread", rb), ("other thread", ra), ("repeat afterwards", later[0]), ("repeat afterwards", later[1])):
            if r[0] != "exc" or r[1] != "AxisSizeError":
                out.append(({"kind": "identical_failing_calls_differ_from_the_call_alone", "outcome": r[1] if r[0] == "exc" else "value", "who": who},
                            {"stopped_before": list(pause), "call": f"einx.sum('a (b c) -> c b', array of shape {x.shape}, b=2)  (AxisSizeError alone)",
                             "detail": str(r)[:400]}))
        return n, out
    if kind == "first_time_factory_calls_every_line":
        # the same with a tensor factory that asks for the call's signature: each thread's factory is told about its own call
        n1, n2 = 2 + 2 * k, 3 + 2 * k
        x, y = np.arange(n1 * 3, dtype=np.int64).reshape(n1, 3), np.arange(n2 * 4 * 5, dtype=np.int64).reshape(n2, 4, 5) + 1
        seen = {"1": [], "2": []}

        def fac(tag, val):
            def factory(shape, signature=None):
                seen[tag].append(", ".join(str(e) for e in getattr(signature, "exprs_in", ())) if signature is not None else "None")
                return np.full(shape, val, dtype=np.int64)
            return factory
        c1 = ("a b, b", x, fac("1", 7), x + 7)
        c2 = ("c d e, d", y, fac("2", 9), y + 9)
        ra, rb, n = single_preemption(lambda: call2("add", c2[0], c2[1], c2[2]), lambda: call2("add", c1[0], c1[1], c1[2]), None, ("",), pause_line=tuple(pause))
        later = []
        for c in (c2, c1):
            try:
                later.append(call2("add", c[0], c[1], c[2]))
            except BaseException as e:  # noqa: BLE001
                later.append(("exc", common.classify_exc(e), common.exc_site(e), str(e)[:300]))
        for who, r, c in (("stopped thread", rb, c1), ("other thread", ra, c2), ("repeat afterwards", later[0], c2), ("repeat afterwards", later[1], c1)):
            if r[0] != "ok" or r[1].shape != c[3].shape or not np.array_equal(r[1], c[3]):
                out.append(({"kind": "first_time_call_fails_next_to_another", "exc": r[1] if r[0] == "exc" else "wrong value", "who": who, "with": "factory"},
                            {"stopped_before": list(pause), "call": f"einx.add('{c[0]}', array, factory)", "detail": str(r)[:400]}))
        for tag, desc in (("1", c1[0]), ("2", c2[0])):
            first = desc.split(",")[0].strip()
            if any(first not in s for s in seen[tag]):
                out.append(({"kind": "factory_told_about_another_threads_call", "with": "factory"},
                            {"stopped_before": list(pause), "call": f"einx.add('{desc}', array, factory)", "signature_seen": seen[tag][:4]}))
        return n, out
    # two first-time calls whose descriptions contain several anonymous axes, stopped inside the parser
    n1, n2 = 2 + k, 20000 + k                                  # fresh shapes (k is unique per schedule): both calls are traced anew
    x, y = np.arange(n1, dtype=np.int64), np.arange(n2, dtype=np.int64)

    def call1():
        return call("id", "a -> a 1 1 1", x)

    def call2():
        return call("id", "b -> 1 b 1 1", y)
    pa = None
    if kind == "calls_at_global_writes" and isinstance(pause, (list, tuple)):
        pause, pa = pause                                       # both threads are stopped once
    ra, rb, n = single_preemption(call2, call1, pause, ("namedtensor/stage1/parse.py", "namedtensor/stage1/tree.py"),
                                  hot_only=(kind == "calls_at_global_writes"), pause_a=pa)
    for r, exp, d in ((rb, x.reshape(n1, 1, 1, 1), "a -> a 1 1 1"), (ra, y.reshape(1, n2, 1, 1), "b -> 1 b 1 1")):
        if r[0] != "ok" or r[1].shape != exp.shape or not np.array_equal(r[1], exp):
            out.append(({"kind": "first_time_call_fails_next_to_another", "exc": r[1] if r[0] == "exc" else "wrong value"},
                        {"pause_before_line_event": pause, "files": ["stage1/parse.py", "stage1/tree.py"], "call": f"einx.id('{d}', arange(n))", "detail": str(r)[:400]}))
    return n, out


def distinct_lines_of_first_time_call(all_occurrences=False, with_factory=False):
    """every (file, line) of einx that a first-time einx.sum call (with a flattened axis and a transposed output) executes, in order of first execution"""
    import einx
    src = common.REPO.rstrip("/") + "/einx/"
    seen, order = {}, []

    def local(frame, event, arg):
        if event == "line":
            key = (frame.f_code.co_filename[len(src):], frame.f_lineno)
            if key not in seen:
                order.append(key)
            seen[key] = seen.get(key, 0) + 1
        return local

    def glob(frame, event, arg):
        return local if event == "call" and frame.f_code.co_filename.startswith(src) else None
    def probe(n):
        if with_factory:
            return einx.add("a b, b", np.ones((n, 3)), lambda shape, signature=None: np.ones(shape))
        return einx.sum("a (b c) -> c b", np.arange(n * 6).reshape(n, 6), b=2)
    probe(3)                                                   # imports, first-use initialisation
    sys.settrace(glob)
    try:
        probe(77)
    finally:
        sys.settrace(None)
    # before the first execution of every line, and before the last one of every line that runs several times (the outermost
    # frame of a function used at several levels - such as a cache wrapper - is the one that finishes last)
    out = [[f, l, 1] for f, l in order]
    out += [[f, l, seen[(f, l)]] for f, l in order if seen[(f, l)] > 1]
    if all_occurrences:
        out += [[f, l, k] for f, l in order for k in range(2, min(seen[(f, l)], 12))]
    else:
        # the code of objects that live as long as a backend or the process (optimiser patterns, caches, the public layer): every
        # execution of their lines, not only the first and the last
        hot = ("tracer/optimizer/", "util/lru_cache.py", "frontend/")
        out += [[f, l, k] for f, l in order if any(h in f for h in hot) for k in range(2, min(seen[(f, l)], 12))]
    return out


def run_preemption_mode(ctx):
    quick = ctx.tier == "quick"
    stats = {}
    # how many line events does each stopped thread execute?  (one probe run each, pause never reached)
    probes = {}
    for j, kind in enumerate(("with_vs_call", "call_vs_with", "exit_during_call", "enter_during_call", "calls_at_global_writes", "parse_vs_parse")):
        n, _ = _preempt_case((kind, 10000 + j, 10 ** 9))
        probes[kind] = n
    items = []
    k = 1
    for kind, total in probes.items():
        if kind == "calls_at_global_writes":
            pts = [(i, j) for i in range(1, total + 1) for j in range(1, total + 1)][: (400 if quick else 5000)]   # every pair of stops
        elif kind == "parse_vs_parse":
            step = max(1, total // (150 if quick else 4000))
            pts = list(range(1 + ctx.rng.randrange(step), total + 1, step))
        else:
            pts = list(range(1, total + 1))                    # exhaustive
        for p in pts:
            items.append((kind, k, p))
            k += 1
        stats["preemption_points_" + kind] = len(pts)
        stats["line_events_" + kind] = total
    every = distinct_lines_of_first_time_call(all_occurrences=not quick)
    stats["preemption_points_first_time_calls_every_line"] = len(every)
    for fl in every:
        items.append(("first_time_calls_every_line", k, fl))
        k += 1
    flines = distinct_lines_of_first_time_call(all_occurrences=False, with_factory=True)
    if quick:
        # quick tier: the lines of the files that hand the call over to the factory; thorough tier: every line
        flines = [fl for fl in flines if fl[0].endswith(("namedtensor_calltensorfactory.py", "frontend/api.py", "util/lru_cache.py"))]
    stats["preemption_points_first_time_factory_calls_every_line"] = len(flines)
    for fl in flines:
        items.append(("first_time_factory_calls_every_line", k, fl))
        k += 1
    # identical failing first-time calls: the lines of the cache / public layer and of the solver (every line in the thorough tier)
    ilines = [fl for fl in every if not quick or fl[0].endswith(("util/lru_cache.py", "frontend/api.py")) or "namedtensor/solve.py" in fl[0]]
    stats["preemption_points_identical_failing_calls_every_line"] = len(ilines)
    for fl in ilines:
        items.append(("identical_failing_calls_every_line", k, fl))
        k += 1
    # in portions: threads that wait for each other for good (each such case costs its full time limit) end the sweep early
    res, stuck = [], 0
    bounds = [0, 32] + list(range(192, len(items) + 160, 160))
    for lo, hi in zip(bounds, bounds[1:]):
        part = common.pmap(_preempt_case, items[lo:hi], procs=8)
        res.extend(part)
        stuck += sum(1 for _, viol in part for tags, _ in viol if "STUCK" in json.dumps(tags))
        if stuck >= 3:
            break
    stats["preemption_sweep_ended_early_after_stuck_cases"] = stuck >= 3
    items = items[:len(res)]
    for it, (n, viol) in zip(items, res):
        for tags, payload in viol:
            ctx.report(tags, {**payload, "case": list(it)})
        ctx.distinct.add("preempt|%s|%s" % (it[0], it[2]))
    stats["preemption_schedules"] = len(items)
    return stats


def replay(ctx, path):
    data = json.load(open(path))
    case, sched = data.get("case"), data.get("schedule")
    if case is None and "case" in data and isinstance(data["case"], list) and len(data["case"]) == 3:
        import einx  # noqa: F401
        n, viol = _preempt_case(tuple(data["case"]))
        print("single pre-emption", data["case"], "line events:", n)
        for tags, payload in viol:
            print(tags, str(payload.get("detail", ""))[:300])
        if viol:
            print(f"VIOLATION property=C10 replay={path}")
            return 1
        print("both threads returned what they return alone")
        return 0
    if case is None and "programs" in data and "points" in data:
        import multiprocessing as mp
        import einx  # noqa: F401
        programs = [[(c["op"], c["desc"], [np.array(a) for a in c["inputs"]], c["kwargs"]) for c in pr] for pr in data["programs"]]
        with mp.get_context("fork").Pool(1) as pool:          # the calls alone, in a process of their own
            expected = [pool.map(alone_outcome, pr) for pr in programs]
        sw, viol = _call_case((programs, expected, data["points"], data["order_seed"]))
        print("programs:", [[(o, d) for o, d, _, _ in pr] for pr in programs], "switch points:", data["points"], "context switches:", sw)
        for tags, payload in viol:
            print(tags, str(payload.get("message", ""))[:300])
        if viol:
            print(f"VIOLATION property=C10 replay={path}")
            return 1
        print("every call returned what it returns alone")
        return 0
    if case is None:
        print(json.dumps(data)[:2000])
        return 1
    import einx  # noqa: F401
    serial = model_serial(ctx.model, case)
    allowed = {json.dumps([per, final]) for _, per, final in serial}
    results, final, steps, trace = run_schedule(case["programs"], sched, make_registry_env(case))
    print("programs:", json.dumps(case["programs"]))
    print("observed:", results, final)
    if json.dumps([norm(results), final]) not in allowed:
        print(f"VIOLATION property=C10 replay={path}")
        return 1
    print("serialisable under this schedule")
    return 0
