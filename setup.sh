#!/bin/sh
# Offline build of the verification framework: regenerate Gen/*.v from /repo, build the whole Coq
# development (full .vo), extract the executable model and compile the OCaml driver.
set -e
cd "$(dirname "$0")"
/venv/bin/python gen/translate.py || echo "translate failed (reported again by every check)"
mkdir -p ocaml/gen
cd coq
coq_makefile -f _CoqProject -o Makefile
timeout 3000 make -j16 -k || echo "some proofs do not build (reported by the checks that need them)"
cd ../ocaml
./build.sh
