(* Driver of the extracted model: reads one S-expression per line on stdin, prints one per line.
   Atoms are [A-Za-z0-9_.-]+ tokens; lists are parenthesised.  Hand-written, part of the trusted
   base of the correspondence check (not of any theorem). *)
module M = Einxmodel

(* ExtrOcamlBasic does not map Coq's [string]/[ascii]; convert explicitly *)
let ascii_of_char (c : char) =
  let n = Char.code c in
  let b i = (n lsr i) land 1 = 1 in
  M.Ascii (b 0, b 1, b 2, b 3, b 4, b 5, b 6, b 7)
let char_of_ascii (M.Ascii (b0, b1, b2, b3, b4, b5, b6, b7)) =
  let v b i = if b then 1 lsl i else 0 in
  Char.chr (v b0 0 + v b1 1 + v b2 2 + v b3 3 + v b4 4 + v b5 5 + v b6 6 + v b7 7)
let rec to_coq_string (s : string) (i : int) =
  if i >= String.length s then M.EmptyString else M.String (ascii_of_char s.[i], to_coq_string s (i + 1))
let of_coq_string (s : M.string) : string =
  let b = Buffer.create 16 in
  let rec go = function M.EmptyString -> () | M.String (a, r) -> Buffer.add_char b (char_of_ascii a); go r in
  go s; Buffer.contents b

let parse_line (s : string) : M.sexp =
  let n = String.length s in
  let pos = ref 0 in
  let rec skip () = if !pos < n && (s.[!pos] = ' ' || s.[!pos] = '\t') then (incr pos; skip ()) in
  let rec item () : M.sexp =
    skip ();
    if !pos >= n then failwith "unexpected end";
    if s.[!pos] = '(' then begin
      incr pos;
      let acc = ref [] in
      let rec loop () =
        skip ();
        if !pos >= n then failwith "unclosed";
        if s.[!pos] = ')' then incr pos else (acc := item () :: !acc; loop ()) in
      loop (); M.L (List.rev !acc)
    end else begin
      let st = !pos in
      while !pos < n && s.[!pos] <> ' ' && s.[!pos] <> '(' && s.[!pos] <> ')' && s.[!pos] <> '\t' do incr pos done;
      if !pos = st then failwith "empty atom";
      M.A (to_coq_string (String.sub s st (!pos - st)) 0)
    end in
  item ()

let rec print_sexp (b : Buffer.t) (x : M.sexp) : unit =
  match x with
  | M.A s -> Buffer.add_string b (of_coq_string s)
  | M.L l ->
    Buffer.add_char b '(';
    List.iteri (fun i y -> if i > 0 then Buffer.add_char b ' '; print_sexp b y) l;
    Buffer.add_char b ')'

let () =
  let b = Buffer.create 4096 in
  (try
    while true do
      let line = input_line stdin in
      Buffer.clear b;
      (try print_sexp b (M.run (parse_line line))
       with Failure m -> Buffer.clear b; Buffer.add_string b ("(DRIVERFAIL " ^ String.map (fun c -> if c = ' ' then '_' else c) m ^ ")")
          | Stack_overflow -> Buffer.clear b; Buffer.add_string b "(DRIVERFAIL stack_overflow)");
      print_string (Buffer.contents b); print_newline ()
    done
  with End_of_file -> ())
