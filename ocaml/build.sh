#!/bin/sh
# builds /verif/ocaml/einxmodel from the extracted gen/einxmodel.ml and driver.ml
set -e
cd "$(dirname "$0")"
mkdir -p _build
cp gen/einxmodel.ml gen/einxmodel.mli driver.ml _build/
cd _build
ocamlfind ocamlopt -w -a -O2 einxmodel.mli einxmodel.ml driver.ml -o ../einxmodel 2>/dev/null
